package main

// Rules added after the second mutation sweep: each closes a class of surviving mutants that breaks a listed
// property (DESIGN.md 8.6). All are decided on values and conditions, not on statement shapes.

import (
	"encoding/json"
	"fmt"
	"go/ast"
	"go/constant"
	"go/token"
	"go/types"
	"os"
	"reflect"
	"regexp/syntax"
	"sort"
	"strings"

	"golang.org/x/tools/go/ssa"
)

func init() {
	register(&Rule{Name: "LINT-NILDEREF", Floor: 10, Run: ruleNilDeref, Fixture: "fixture.derefKnownNil",
		Doc: "no pointer is dereferenced and no interface method invoked in the region that is only entered when the same value compared equal to nil (a guard joined with the wrong connective)"})
	register(&Rule{Name: "LINT-CONSTIDX", Floor: 1, Run: ruleConstIdx, Fixture: "fixture.constIndexBeyondMake",
		Doc: "a constant index into a slice made with a constant length (or re-sliced to constant bounds) lies inside it"})
	register(&Rule{Name: "ASN1-RAWSEQ", Floor: 4, Run: ruleRawSeq, Fixture: "fixture.primitiveSequence",
		Doc: "every asn1.RawValue handed to asn1.Marshal with a universal tag has the constructed bit DER prescribes for that tag: set for SEQUENCE and SET, clear for the primitive-only types (X.690 8.9.1, 8.11.1, 10.2)"})
	register(&Rule{Name: "BITSTRING-LEN", Floor: 2, Run: ruleBitStringLen, Fixture: "fixture.bitLengthNotEightTimes",
		Doc: "a BIT STRING built from whole bytes says so: where BitLength is computed from a length, it is 8 times the length of the very bytes stored beside it"})
	register(&Rule{Name: "OCSP-NULL", Floor: 1, Run: ruleOcspNull,
		Doc: "every extension value built for id-pkix-ocsp-nocheck is the DER NULL 05 00 (RFC 6960 4.2.2.2.1)"})
	register(&Rule{Name: "POINT-ORDER", Floor: 2, Run: rulePointOrder, Fixture: "fixture.swappedCoordinates",
		Doc: "where the coordinates of a curve point are handed to parameters named x and y, x receives the X field and y the Y field of the same key"})
}

// ---------------------------------------------------------------------------

func ruleNilDeref(c *Ctx, r *Rep) {
	pv := c.newProv()
	for _, fn := range c.Funcs {
		n := 0
		for _, b := range fn.Blocks {
			if len(b.Instrs) == 0 {
				continue
			}
			iff, ok := b.Instrs[len(b.Instrs)-1].(*ssa.If)
			if !ok {
				continue
			}
			x, nilOnTrue, ok := nilTestOf(iff.Cond, true)
			if !ok {
				continue
			}
			_, isPtr := x.Type().Underlying().(*types.Pointer)
			_, isIface := x.Type().Underlying().(*types.Interface)
			if !isPtr && !(isIface && !isErrorType(x.Type())) {
				continue
			}
			n++
			idx := 1
			if nilOnTrue {
				idx = 0
			}
			in := map[*ssa.BasicBlock]bool{}
			for _, rb := range regionOf(b, idx) {
				in[rb] = true
			}
			bad, pos := "", iff.Pos()
			for _, ref := range *x.Referrers() {
				if !in[ref.Block()] {
					continue
				}
				switch u := ref.(type) {
				case *ssa.FieldAddr:
					if u.X == x {
						bad, pos = "field "+fieldOfAddr(u).Name()+" addressed", u.Pos()
					}
				case *ssa.UnOp:
					if u.Op == token.MUL && u.X == x {
						bad, pos = "loaded through", u.Pos()
					}
				case *ssa.Call:
					if u.Call.IsInvoke() && u.Call.Value == x {
						bad, pos = "method "+u.Call.Method.Name()+" invoked", u.Pos()
					}
				}
			}
			// the same place read again (x.f == nil && x.f.g …): a second load of what was just found nil, before
			// anything could have changed it
			if xo := pv.Origins(x); bad == "" && len(xo) == 1 && !strings.HasPrefix(xo[0], "K(") && !strings.HasPrefix(xo[0], "?") {
				if xl, isLoad := x.(*ssa.UnOp); isLoad {
					// what was read sits in a local of the function: only a store below that local (or, once its address
					// has left the function, a call) can change it; anywhere else every store and call may
					var home *ssa.Alloc
					for a := xl.X; a != nil; {
						switch y := a.(type) {
						case *ssa.FieldAddr:
							a = y.X
							continue
						case *ssa.IndexAddr:
							a = y.X
							continue
						case *ssa.Alloc:
							home = y
						}
						break
					}
					rootedAt := func(addr ssa.Value) bool {
						for a := addr; a != nil; {
							switch y := a.(type) {
							case *ssa.FieldAddr:
								a = y.X
								continue
							case *ssa.IndexAddr:
								a = y.X
								continue
							case *ssa.Alloc:
								return y == home
							}
							break
						}
						return false
					}
				scan:
					for _, ins := range b.Succs[idx].Instrs {
						switch u := ins.(type) {
						case *ssa.Store:
							if home == nil || rootedAt(u.Addr) {
								break scan
							}
						case *ssa.MapUpdate:
							if home == nil {
								break scan
							}
						case ssa.CallInstruction:
							if bi, isB := u.Common().Value.(*ssa.Builtin); isB && bi.Name() != "copy" && bi.Name() != "append" {
								continue
							}
							if home == nil || home.Heap {
								break scan
							}
						case *ssa.FieldAddr:
							if u.X == x {
								continue
							}
							if _, isPtr := u.X.Type().Underlying().(*types.Pointer); !isPtr {
								continue
							}
							switch u.X.(type) {
							case *ssa.UnOp, *ssa.Field:
								if yo := pv.Origins(u.X); len(yo) == 1 && yo[0] == xo[0] && len(b.Succs[idx].Preds) == 1 {
									bad, pos = "field "+fieldOfAddr(u).Name()+" addressed through a second read of "+xo[0], u.Pos()
								}
							}
						}
					}
				}
			}
			if !pos.IsValid() {
				pos = fn.Pos()
			}
			r.Check(bad == "", sprintf("nil-test|%s#%d", c.FuncKey(fn), n), c.Pos(pos), "the value is not dereferenced where it is known to be nil", bad)
		}
	}
}

// constLen: the length of a slice value when it follows from constants alone.
func constLen(v ssa.Value) (int64, bool) {
	switch x := v.(type) {
	case *ssa.MakeSlice:
		if k, ok := x.Len.(*ssa.Const); ok && k.Value != nil {
			return k.Int64(), true
		}
	case *ssa.Slice:
		lo := int64(0)
		if x.Low != nil {
			k, ok := x.Low.(*ssa.Const)
			if !ok || k.Value == nil {
				return 0, false
			}
			lo = k.Int64()
		}
		if x.High != nil {
			if k, ok := x.High.(*ssa.Const); ok && k.Value != nil {
				return k.Int64() - lo, true
			}
			return 0, false
		}
		if p, ok := x.X.Type().Underlying().(*types.Pointer); ok {
			if a, ok := p.Elem().Underlying().(*types.Array); ok {
				return a.Len() - lo, true
			}
		}
		if n, ok := constLen(x.X); ok {
			return n - lo, true
		}
	}
	return 0, false
}

func ruleConstIdx(c *Ctx, r *Rep) {
	for _, fn := range c.Funcs {
		n := 0
		for _, b := range fn.Blocks {
			for _, ins := range b.Instrs {
				ia, ok := ins.(*ssa.IndexAddr)
				if !ok {
					continue
				}
				k, ok := ia.Index.(*ssa.Const)
				if !ok || k.Value == nil {
					continue
				}
				ln, ok := constLen(ia.X)
				if !ok {
					ln, ok = lenBoundFromGuards(ia.X, b)
				}
				if !ok {
					// bytes a library call handed back (a decoding, a file): their length is whatever the input was, so a constant
					// index needs a test (or a chain of constructions) that establishes it
					if _, isSlice := ia.X.Type().Underlying().(*types.Slice); isSlice && fromLibraryBytes(c, ia.X) {
						n++
						have := minLenOf(c, ia.X, b, 0)
						r.Check(have > k.Int64(), sprintf("index|%s#%d", c.FuncKey(fn), n), c.Pos(ia.Pos()),
							sprintf("a length of at least %d established on the way", k.Int64()+1), sprintf("established: at least %d", have))
					}
					continue
				}
				n++
				r.Check(k.Int64() >= 0 && k.Int64() < ln, sprintf("index|%s#%d", c.FuncKey(fn), n), c.Pos(ia.Pos()),
					sprintf("an index below the constant length %d", ln), sprintf("index %d", k.Int64()))
			}
		}
	}
}

// ---------------------------------------------------------------------------

// universal tags whose DER encoding is always constructed / always primitive
var derConstructed = map[int64]bool{16: true, 17: true}
var derPrimitive = map[int64]bool{1: true, 2: true, 3: true, 4: true, 5: true, 6: true, 10: true, 12: true, 19: true, 22: true, 23: true, 24: true}

func ruleRawSeq(c *Ctx, r *Rep) {
	ev := c.evaluator()
	for _, fn := range c.Funcs {
		n := 0
		for _, ci := range callsIn(fn) {
			name := calleeFullName(ci)
			if name != "encoding/asn1.Marshal" && name != "encoding/asn1.MarshalWithParams" {
				continue
			}
			arg := unwrapIface(ci.Common().Args[0])
			if !strings.HasSuffix(types.TypeString(arg.Type(), nil), "encoding/asn1.RawValue") {
				continue
			}
			lf := literalFields(c, arg)
			if lf == nil {
				continue // not a literal: a value carried from elsewhere
			}
			n++
			key := sprintf("raw|%s#%d", c.FuncKey(fn), n)
			intOf := func(f string) (int64, bool) {
				v, ok := lf[f]
				if !ok {
					return 0, true
				}
				d := c.describe(ev, v, 0)
				if i, ok := d.Int(); ok {
					return i, true
				}
				if bv, ok := d.Bool(); ok {
					if bv {
						return 1, true
					}
					return 0, true
				}
				return 0, false
			}
			class, ok1 := intOf("Class")
			tag, ok2 := intOf("Tag")
			comp, ok3 := intOf("IsCompound")
			if _, full := lf["FullBytes"]; full {
				continue // the bytes are emitted as they are
			}
			if ok1 && class != 0 {
				r.Ok(key, c.Pos(ci.Pos()), "universal tags only", sprintf("class %d", class)) // whatever the tag: DER prescribes no form
				continue
			}
			if !ok1 || !ok2 || !ok3 {
				// class, tag or form handed in: the literal is decided once per call of the function, with what that
				// call hands in
				sites, decided := 0, 0
				for _, caller := range c.Funcs {
					for _, site := range callsIn(caller) {
						if site.Common().StaticCallee() != fn {
							continue
						}
						sites++
						at := func(f string) (int64, bool) {
							v, ok := lf[f]
							if !ok {
								return 0, true
							}
							if prm, isP := v.(*ssa.Parameter); isP {
								for i, fp := range fn.Params {
									if fp == prm && i < len(site.Common().Args) {
										v = site.Common().Args[i]
									}
								}
							}
							d := c.describe(ev, v, 0)
							if i, ok := d.Int(); ok {
								return i, true
							}
							if bv, ok := d.Bool(); ok {
								if bv {
									return 1, true
								}
								return 0, true
							}
							return 0, false
						}
						cl, k1 := at("Class")
						tg, k2 := at("Tag")
						cp, k3 := at("IsCompound")
						if !k1 || !k2 || !k3 {
							continue
						}
						decided++
						skey := sprintf("%s@%s", key, c.FuncKey(caller))
						switch {
						case cl != 0:
							r.Ok(skey, c.Pos(site.Pos()), "universal tags only", sprintf("class %d", cl))
						case derConstructed[tg]:
							r.Check(cp == 1, skey, c.Pos(site.Pos()), sprintf("universal tag %d is constructed", tg), sprintf("IsCompound %v", cp == 1))
						case derPrimitive[tg]:
							r.Check(cp == 0, skey, c.Pos(site.Pos()), sprintf("universal tag %d is primitive", tg), sprintf("IsCompound %v", cp == 1))
						default:
							r.Ok(skey, c.Pos(site.Pos()), "a tag with a prescribed form", sprintf("universal tag %d", tg))
						}
					}
				}
				if sites == 0 || decided < sites {
					r.Undecided("shape:"+key, c.Pos(ci.Pos()), "class, tag or constructed bit of the literal is not a constant")
				}
				continue
			}
			switch {
			case derConstructed[tag]:
				r.Check(comp == 1, key, c.Pos(ci.Pos()), sprintf("universal tag %d is constructed", tag), sprintf("IsCompound %v", comp == 1))
			case derPrimitive[tag]:
				r.Check(comp == 0, key, c.Pos(ci.Pos()), sprintf("universal tag %d is primitive", tag), sprintf("IsCompound %v", comp == 1))
			default:
				r.Ok(key, c.Pos(ci.Pos()), "a tag with a prescribed form", sprintf("universal tag %d", tag))
			}
		}
	}
}

// ---------------------------------------------------------------------------

// lenOperand: v == len(x) (directly or converted): x.
func lenOperand(v ssa.Value) (ssa.Value, bool) {
	for {
		switch x := v.(type) {
		case *ssa.Convert:
			v = x.X
			continue
		case *ssa.ChangeType:
			v = x.X
			continue
		case *ssa.Call:
			if b, ok := x.Call.Value.(*ssa.Builtin); ok && b.Name() == "len" {
				return x.Call.Args[0], true
			}
		}
		return nil, false
	}
}

func mentionsLen(v ssa.Value, depth int) bool {
	if depth > 4 {
		return false
	}
	if _, ok := lenOperand(v); ok {
		return true
	}
	if b, ok := v.(*ssa.BinOp); ok {
		return mentionsLen(b.X, depth+1) || mentionsLen(b.Y, depth+1)
	}
	return false
}

func ruleBitStringLen(c *Ctx, r *Rep) {
	for _, fn := range c.Funcs {
		// group the field stores of each BitString being filled
		type lit struct {
			bytes, bits ssa.Value
			pos         token.Pos
		}
		// the BitString is named by where it lives (base value and field path) and the block that fills it:
		// two statements on out.Id.Bytes and out.Id.BitLength address it through different instructions
		type where struct {
			base  ssa.Value
			path  string
			block *ssa.BasicBlock
		}
		lits := map[where]*lit{}
		var order []where
		for _, b := range fn.Blocks {
			for _, ins := range b.Instrs {
				st, ok := ins.(*ssa.Store)
				if !ok {
					continue
				}
				fa, ok := st.Addr.(*ssa.FieldAddr)
				if !ok || !strings.HasSuffix(ownerName(c, fa.X.Type()), "asn1.BitString") {
					continue
				}
				w := where{base: fa.X, block: b}
				for {
					up, ok := w.base.(*ssa.FieldAddr)
					if !ok {
						break
					}
					w.path = fieldOfAddr(up).Name() + "." + w.path
					w.base = up.X
				}
				l := lits[w]
				if l == nil {
					l = &lit{}
					lits[w] = l
					order = append(order, w)
				}
				switch fieldOfAddr(fa).Name() {
				case "Bytes":
					l.bytes = st.Val
				case "BitLength":
					l.bits, l.pos = st.Val, st.Pos()
				}
			}
		}
		n := 0
		for _, root := range order {
			l := lits[root]
			if l.bits == nil || l.bytes == nil || !mentionsLen(l.bits, 0) {
				continue // no length given (whole bytes by default), a count of named bits, or bytes stored elsewhere
			}
			n++
			key := sprintf("bit-length|%s#%d", c.FuncKey(fn), n)
			ok := false
			found := "another expression"
			if m, isBin := l.bits.(*ssa.BinOp); isBin && m.Op == token.MUL {
				for _, pair := range [][2]ssa.Value{{m.X, m.Y}, {m.Y, m.X}} {
					of, isLen := lenOperand(pair[0])
					k, isK := pair[1].(*ssa.Const)
					if isLen && isK && k.Value != nil {
						found = sprintf("len(…) * %d", k.Int64())
						if k.Int64() == 8 && of == l.bytes {
							ok = true
						} else if k.Int64() == 8 {
							found = "8 * the length of other bytes"
						}
					}
				}
			}
			r.Check(ok, key, c.Pos(l.pos), "8 * len(the bytes stored beside it)", found)
		}
	}
}

// ---------------------------------------------------------------------------

func ruleOcspNull(c *Ctx, r *Rep) {
	ev := c.evaluator()
	want := ""
	for _, e := range refList("extensions") {
		if strings.EqualFold(rs(e, "name"), "ocspNoCheck") || strings.Contains(strings.ToLower(rs(e, "name")), "ocspnocheck") {
			want = rs(e, "oid")
		}
	}
	if want == "" {
		want = "1.3.6.1.5.5.7.48.1.5"
	}
	n := 0
	check := func(key, pos string, v *Val) {
		id := v.Fields["Id"]
		if id == nil || id.Kind != "ints" || oidString(id.Ints) != want {
			return
		}
		n++
		val := v.Fields["Value"]
		switch {
		case val == nil:
			r.Bad(key, pos, "05 00", "no value")
		case val.Kind == "ints":
			r.Check(len(val.Ints) == 2 && val.Ints[0] == 5 && val.Ints[1] == 0, key, pos, "05 00 (NULL)", sprintf("% x", intsToBytes(val.Ints)))
		case val.Kind == "ref" && strings.HasSuffix(val.Name, "asn1.NullBytes"):
			r.Ok(key, pos, "05 00 (NULL)", "asn1.NullBytes")
		default:
			r.Undecided("shape:"+key, pos, "value of the ocsp-nocheck extension is not a constant: "+val.String())
		}
	}
	// package-level extension values
	for _, p := range c.Pkgs {
		if !c.isModPath(p.PkgPath) {
			continue
		}
		sc := p.Types.Scope()
		for _, name := range sc.Names() {
			v, ok := sc.Lookup(name).(*types.Var)
			if !ok || !strings.HasSuffix(types.TypeString(v.Type(), nil), "pkix.Extension") {
				continue
			}
			d := ev.GlobalVal(v)
			if d != nil && d.Kind == "struct" {
				check("var|"+objName(c, v), c.Pos(v.Pos()), d)
			}
		}
	}
	// literals built inside functions
	for _, fn := range c.Funcs {
		roots := map[ssa.Value]map[string]ssa.Value{}
		var order []ssa.Value
		for _, fs := range storesIntoType(c, fn, "pkix.Extension") {
			if fs.whole || strings.Contains(fs.field, ".") {
				continue
			}
			if roots[fs.root] == nil {
				roots[fs.root] = map[string]ssa.Value{}
				order = append(order, fs.root)
			}
			roots[fs.root][fs.field] = fs.val()
		}
		for i, root := range order {
			f := roots[root]
			if f["Id"] == nil {
				continue
			}
			d := &Val{Kind: "struct", Fields: map[string]*Val{"Id": c.describe(ev, f["Id"], 0)}}
			if f["Value"] != nil {
				d.Fields["Value"] = c.describe(ev, f["Value"], 0)
			}
			check(sprintf("literal|%s#%d", c.FuncKey(fn), i+1), c.FnPos(fn), d)
		}
	}
	if n == 0 {
		r.Undecided("anchor:ocsp-nocheck-extension", "", "no extension value with id "+want+" found")
	}
}

func intsToBytes(a []int) []byte {
	out := make([]byte, len(a))
	for i, x := range a {
		out[i] = byte(x)
	}
	return out
}

// ---------------------------------------------------------------------------

func rulePointOrder(c *Ctx, r *Rep) {
	// the access path of a coordinate: base value and field name
	coord := func(v ssa.Value) (ssa.Value, string, bool) {
		u, ok := v.(*ssa.UnOp)
		if !ok || u.Op != token.MUL {
			return nil, "", false
		}
		fa, ok := u.X.(*ssa.FieldAddr)
		if !ok {
			return nil, "", false
		}
		name := fieldOfAddr(fa).Name()
		if name != "X" && name != "Y" {
			return nil, "", false
		}
		// skip the embedded public key: key.PublicKey.X and key.X are the same field
		base := fa.X
		for {
			up, ok := base.(*ssa.FieldAddr)
			if !ok || !fieldOfAddr(up).Embedded() && fieldOfAddr(up).Name() != "PublicKey" {
				break
			}
			base = up.X
		}
		return base, name, true
	}
	for _, fn := range c.Funcs {
		n := 0
		for _, ci := range callsIn(fn) {
			sig := ci.Common().Signature()
			args := ci.Common().Args
			off := 0
			if ci.Common().IsInvoke() {
				off = 0 // invoke: Args exclude the receiver, as do Params
			} else if sig.Recv() != nil {
				off = 1
			}
			for i := 0; i+1 < sig.Params().Len(); i++ {
				px, py := strings.ToLower(sig.Params().At(i).Name()), strings.ToLower(sig.Params().At(i+1).Name())
				if !(px == "x" && py == "y") {
					continue
				}
				if i+1+off >= len(args) {
					continue
				}
				bx, nx, ok1 := coord(args[i+off])
				by, ny, ok2 := coord(args[i+1+off])
				if !ok1 || !ok2 || bx != by {
					continue
				}
				n++
				r.Check(nx == "X" && ny == "Y", sprintf("point|%s#%d", c.FuncKey(fn), n), c.Pos(ci.Pos()),
					"("+calleeFullName(ci)+") x <- .X, y <- .Y", "x <- ."+nx+", y <- ."+ny)
			}
		}
	}
}

var _ = constant.MakeInt64

// ---------------------------------------------------------------------------

// emptyTestOf reads a branch condition as a test for emptiness of a string or slice: the operand, and whether it is
// empty on the edge with the given truth. A comparison of len(x) with a constant counts only when it separates
// exactly the empty from the non-empty (len(x) > 0, len(x) != 0, len(x) >= 1, 0 < len(x), … and their negations).
func emptyTestOf(cond ssa.Value, truth bool) (ssa.Value, bool, bool) {
	for {
		u, ok := cond.(*ssa.UnOp)
		if !ok || u.Op != token.NOT {
			break
		}
		cond, truth = u.X, !truth
	}
	// a one-expression predicate helper: the test it returns (its operand is then a value of the helper)
	if call, ok := cond.(*ssa.Call); ok {
		if f := call.Call.StaticCallee(); f != nil && len(f.Blocks) == 1 {
			if ret, ok := f.Blocks[0].Instrs[len(f.Blocks[0].Instrs)-1].(*ssa.Return); ok && len(ret.Results) == 1 {
				x, empty, ok := emptyTestOf(ret.Results[0], truth)
				// the helper's parameter stands for what the caller handed in
				if prm, isP := x.(*ssa.Parameter); ok && isP {
					for i, fp := range f.Params {
						if fp == prm && i < len(call.Call.Args) {
							x = call.Call.Args[i]
						}
					}
				}
				return x, empty, ok
			}
		}
		return nil, false, false
	}
	bin, ok := cond.(*ssa.BinOp)
	if !ok {
		return nil, false, false
	}
	cmp := func(op token.Token, a, b int64) (bool, bool) {
		switch op {
		case token.EQL:
			return a == b, true
		case token.NEQ:
			return a != b, true
		case token.LSS:
			return a < b, true
		case token.LEQ:
			return a <= b, true
		case token.GTR:
			return a > b, true
		case token.GEQ:
			return a >= b, true
		}
		return false, false
	}
	var x ssa.Value
	var pred func(n int64) (bool, bool)
	kx, xIsK := bin.X.(*ssa.Const)
	ky, yIsK := bin.Y.(*ssa.Const)
	switch {
	case yIsK && ky.Value != nil && ky.Value.Kind() == constant.String && constant.StringVal(ky.Value) == "" && (bin.Op == token.EQL || bin.Op == token.NEQ):
		x = bin.X
		pred = func(n int64) (bool, bool) { return cmp(bin.Op, n, 0) }
	case xIsK && kx.Value != nil && kx.Value.Kind() == constant.String && constant.StringVal(kx.Value) == "" && (bin.Op == token.EQL || bin.Op == token.NEQ):
		x = bin.Y
		pred = func(n int64) (bool, bool) { return cmp(bin.Op, n, 0) }
	case yIsK && ky.Value != nil && ky.Value.Kind() == constant.Int:
		of, isLen := lenOperand(bin.X)
		if !isLen {
			return nil, false, false
		}
		x = of
		pred = func(n int64) (bool, bool) { return cmp(bin.Op, n, ky.Int64()) }
	case xIsK && kx.Value != nil && kx.Value.Kind() == constant.Int:
		of, isLen := lenOperand(bin.Y)
		if !isLen {
			return nil, false, false
		}
		x = of
		pred = func(n int64) (bool, bool) { return cmp(bin.Op, kx.Int64(), n) }
	default:
		return nil, false, false
	}
	at0, ok0 := pred(0)
	if !ok0 {
		return nil, false, false
	}
	for _, n := range []int64{1, 2, 3, 1 << 40} {
		if v, _ := pred(n); v == at0 {
			return nil, false, false // does not separate empty from non-empty
		}
	}
	// on the true edge x is empty iff pred(0)
	return x, at0 == truth, true
}

func init() {
	register(&Rule{Name: "GUARD-SELFSIGNED", Floor: 1, Run: ruleGuardSelfSigned,
		Doc: "the issuer's stored artifact is looked up exactly when the entity's configuration names an issuer, and the entity acts as its own issuer exactly when it names none: the lookup lies behind a test that the Issuer field is non-empty, the own-context conversion behind the test that it is empty"})
}

func ruleGuardSelfSigned(c *Ctx, r *Rep) {
	pv := c.newProv()
	isConverter := func(f *ssa.Function) bool {
		return f != nil && c.InModule(f) && len(f.Params) == 1 && f.Signature.Results().Len() == 1 &&
			strings.HasSuffix(typeShort(c, f.Signature.Results().At(0).Type()), "cert.IssuerContext") &&
			strings.HasSuffix(typeShort(c, f.Params[0].Type()), "cert.CertificateContext")
	}
	issuerField := func(v ssa.Value) bool {
		o := pv.Origins(v)
		if len(o) == 0 {
			return false
		}
		for _, x := range o {
			if !strings.HasSuffix(x, ".Issuer") {
				return false
			}
		}
		return true
	}
	// is block b only entered when the Issuer field is (non-)empty?
	guarded := func(b *ssa.BasicBlock, wantEmpty bool) (bool, string) {
		found := "no test of the Issuer field on the way"
		for _, g := range guardsOf(b) {
			x, empty, ok := emptyTestOf(g.Cond, g.Truth)
			if !ok || !issuerField(x) {
				continue
			}
			if empty == wantEmpty {
				return true, "so"
			}
			found = "behind the opposite test"
		}
		return false, found
	}
	// the same fact established at every place the function is called from (an unexported helper that is only called, never
	// handed on as a value): the test may sit one or two calls above the look-up
	guardedLocal := guarded
	var guardedAt func(b *ssa.BasicBlock, wantEmpty bool, depth int) (bool, string)
	guardedAt = func(b *ssa.BasicBlock, wantEmpty bool, depth int) (bool, string) {
		ok, found := guardedLocal(b, wantEmpty)
		if ok || depth >= 2 || found != "no test of the Issuer field on the way" {
			return ok, found
		}
		fn := b.Parent()
		if fn.Object() == nil || fn.Object().Exported() || fn.Signature.Recv() != nil {
			return ok, found
		}
		sites := 0
		for _, caller := range c.Funcs {
			for _, bb := range caller.Blocks {
				for _, ins := range bb.Instrs {
					for _, op := range ins.Operands(nil) {
						if *op != ssa.Value(fn) {
							continue
						}
						ci, isCall := ins.(ssa.CallInstruction)
						if !isCall || ci.Common().Value != ssa.Value(fn) {
							return false, found // the function is used as a value: its callers are not all known
						}
						if okSite, _ := guardedAt(bb, wantEmpty, depth+1); !okSite {
							return false, found + " (nor at the call in " + c.FuncKey(caller) + ")"
						}
						sites++
					}
				}
			}
		}
		if sites == 0 {
			return false, found
		}
		return true, "so, at every call of " + c.FuncKey(fn)
	}
	guarded = func(b *ssa.BasicBlock, wantEmpty bool) (bool, string) { return guardedAt(b, wantEmpty, 0) }
	n := 0
	for _, fn := range c.Funcs {
		var lookups []ssa.CallInstruction
		for _, ci := range callsIn(fn) {
			cm := ci.Common()
			if cm.IsInvoke() && cm.Method.Name() == "GetBuildArtifact" && len(cm.Args) == 1 && issuerField(cm.Args[0]) {
				lookups = append(lookups, ci)
			}
		}
		if len(lookups) == 0 {
			continue
		}
		fk := c.FuncKey(fn)
		for i, ci := range lookups {
			n++
			ok, found := guarded(ci.Block(), false)
			r.Check(ok, sprintf("lookup-when-issuer-named|%s#%d", fk, i+1), c.Pos(ci.Pos()), "the issuer's artifact is fetched only behind a test that the Issuer field is non-empty", found)
		}
		k := 0
		for _, ci := range callsIn(fn) {
			if !isConverter(ci.Common().StaticCallee()) {
				continue
			}
			k++
			ok, found := guarded(ci.Block(), true)
			r.Check(ok, sprintf("self-when-no-issuer|%s#%d", fk, k), c.Pos(ci.Pos()), "the entity's own context becomes the issuer only behind a test that the Issuer field is empty", found)
		}
	}
	if n == 0 {
		r.Undecided("anchor:issuer-lookup", "", "no GetBuildArtifact(<config>.Issuer) call found")
	}
}

// ---------------------------------------------------------------------------

func init() {
	register(&Rule{Name: "GUARD-PROFILE", Floor: 1, Run: ruleGuardProfile,
		Doc: "where a configuration is validated against its profile, the only successful exits are the one behind a passed validation and the one behind a test that the configuration names no profile"})
}

func ruleGuardProfile(c *Ctx, r *Rep) {
	pv := c.newProv()
	profileField := func(v ssa.Value) bool {
		o := pv.Origins(v)
		if len(o) == 0 {
			return false
		}
		for _, x := range o {
			if !strings.HasSuffix(x, ".Profile") {
				return false
			}
		}
		return true
	}
	n := 0
	validating := map[*ssa.Function]bool{}
	for fn, cis := range c.funcsCalling(c.modPkg("generator/config") + ".Validate") {
		fk := c.FuncKey(fn)
		// the edges taken when a validation passed
		type edge struct {
			b   *ssa.BasicBlock
			idx int
		}
		var passed []edge
		for _, ci := range cis {
			call, ok := ci.(*ssa.Call)
			if !ok {
				continue
			}
			for _, ref := range *call.Referrers() {
				if iff, ok := ref.(*ssa.If); ok {
					passed = append(passed, edge{iff.Block(), 0})
				}
				if un, ok := ref.(*ssa.UnOp); ok && un.Op == token.NOT {
					for _, r2 := range *un.Referrers() {
						if iff, ok := r2.(*ssa.If); ok {
							passed = append(passed, edge{iff.Block(), 1})
						}
					}
				}
			}
		}
		if len(passed) == 0 {
			r.Undecided("shape:"+fk, c.FnPos(fn), "the result of the validation is not branched on directly")
			continue
		}
		k := 0
		validating[fn] = true
		for _, ret := range returnsOf(fn) {
			res := retResults(ret)
			if len(res) == 0 || !isErrorType(res[len(res)-1].Type()) {
				continue
			}
			if e, ok := res[len(res)-1].(*ssa.Const); !ok || !e.IsNil() {
				continue // not a plain success exit
			}
			k++
			n++
			ok := false
			how := "neither behind a passed validation nor behind a test that no profile is named"
			for _, e := range passed {
				if edgeDominates(e.b, e.idx, ret.Block()) {
					ok, how = true, "behind a passed validation"
				}
			}
			for _, g := range guardsOf(ret.Block()) {
				if x, empty, isTest := emptyTestOf(g.Cond, g.Truth); isTest && profileField(x) && empty {
					ok, how = true, "behind the test that no profile is named"
				}
			}
			r.Check(ok, sprintf("success-exit|%s#%d", fk, k), c.Pos(ret.Pos()), "a successful exit lies behind a passed validation, or behind a test that the Profile field is empty", how)
			if how != "behind a passed validation" {
				validating[fn] = false
			}
			// and where a profile is named, what is handed back is what the merge made of the two (the profile's
			// validity and extensions reach the certificate through nothing else)
			if how == "behind a passed validation" && len(res) == 2 {
				o := pv.Origins(res[0])
				merged := len(o) > 0
				for _, x := range o {
					if !strings.Contains(x, "config.Merge(") {
						merged = false
					}
				}
				r.Check(merged, sprintf("merged-result|%s#%d", fk, k), c.Pos(ret.Pos()), "with a profile named, the configuration handed back is the result of config.Merge", strings.Join(head(o, 2), " , "))
			}
		}
	}
	// the test whether a profile is named may sit one call above the validation: a function that compares the Profile
	// field and calls a function all of whose successful exits lie behind a passed validation
	hosts := make([]*ssa.Function, 0)
	for _, fn := range c.Funcs {
		if _, direct := c.funcsCalling(c.modPkg("generator/config") + ".Validate")[fn]; direct {
			continue
		}
		callsValidating, testsProfile := false, false
		for _, ci := range callsIn(fn) {
			if h := ci.Common().StaticCallee(); h != nil && validating[h] {
				callsValidating = true
			}
		}
		if !callsValidating {
			continue
		}
		for _, b := range fn.Blocks {
			iff, ok := lastInstr(b).(*ssa.If)
			if !ok {
				continue
			}
			cond := iff.Cond
			if u, isNot := cond.(*ssa.UnOp); isNot && u.Op == token.NOT {
				cond = u.X
			}
			if bin, isBin := cond.(*ssa.BinOp); isBin {
				for _, side := range []ssa.Value{bin.X, bin.Y} {
					if of, isLen := lenOperand(side); isLen && profileField(of) || profileField(side) {
						testsProfile = true
					}
				}
			}
			if x, _, isTest := emptyTestOf(iff.Cond, true); isTest && profileField(x) {
				testsProfile = true
			}
		}
		if testsProfile {
			hosts = append(hosts, fn)
		}
	}
	for _, fn := range hosts {
		fk := c.FuncKey(fn)
		k := 0
		for _, ret := range returnsOf(fn) {
			res := retResults(ret)
			if len(res) == 0 || !isErrorType(res[len(res)-1].Type()) {
				continue
			}
			if e, ok := res[len(res)-1].(*ssa.Const); !ok || !e.IsNil() {
				continue
			}
			k++
			ok := false
			how := "neither behind a passed validation nor behind a test that no profile is named"
			for _, g := range guardsOf(ret.Block()) {
				if x, empty, isTest := emptyTestOf(g.Cond, g.Truth); isTest && profileField(x) && empty {
					ok, how = true, "behind the test that no profile is named"
				}
				if x, isNil, isTest := nilTestOf(g.Cond, g.Truth); isTest && isNil {
					if ex, isEx := x.(*ssa.Extract); isEx {
						if call, isCall := ex.Tuple.(*ssa.Call); isCall && call.Call.StaticCallee() != nil && validating[call.Call.StaticCallee()] {
							ok, how = true, "behind a passed validation (through "+c.FuncKey(call.Call.StaticCallee())+")"
						}
					}
				}
			}
			r.Check(ok, sprintf("success-exit|%s#%d", fk, k), c.Pos(ret.Pos()), "a successful exit lies behind a passed validation, or behind a test that the Profile field is empty", how)
		}
	}
	if n == 0 {
		r.Undecided("anchor:validation-site", "", "no function calls config.Validate and returns an error")
	}
}

// lookupTotal: with its parameter set to each valid index in turn, the table lookup fn reaches only exits that answer
// (an element of the table, true); one obligation per index.
func lookupTotal(c *Ctx, ev *evaluator, r *Rep, fn *ssa.Function, n int, names func(int) string) {
	if fn == nil || len(fn.Params) != 1 {
		return
	}
	for k := 0; k < n; k++ {
		assume := map[*ssa.Parameter]int64{fn.Params[0]: int64(k)}
		reached := 0
		bad := ""
		canReach := reachableUnder(c, fn, map[ssa.Value]int64{fn.Params[0]: int64(k)})
		for _, ret := range returnsOf(fn) {
			if !blockFeasibleUnder(c, ev, ret.Block(), assume) || !canReach[ret.Block()] {
				continue
			}
			reached++
			res := retResults(ret)
			okFlag := false
			if kb, isK := res[1].(*ssa.Const); isK && kb.Value != nil && kb.Value.Kind() == constant.Bool {
				okFlag = constant.BoolVal(kb.Value)
			} else if !isK {
				bad = "the found-flag is not a constant at " + c.Pos(ret.Pos())
				continue
			}
			if !okFlag {
				bad = "answers not-found at " + c.Pos(ret.Pos())
				continue
			}
			// the element: a load from the table at the parameter
			elemOK := false
			if u, ok := res[0].(*ssa.UnOp); ok && u.Op == token.MUL {
				if ia, ok := u.X.(*ssa.IndexAddr); ok {
					idx := ia.Index
					if cv, ok := idx.(*ssa.Convert); ok {
						idx = cv.X
					}
					elemOK = idx == ssa.Value(fn.Params[0])
				}
			}
			if !elemOK {
				bad = "does not answer the table entry at its argument at " + c.Pos(ret.Pos())
			}
		}
		if reached == 0 {
			bad = "no exit is reachable"
		}
		r.Check(bad == "", "lookup-total|"+names(k), c.FnPos(fn), sprintf("%s(%d) answers (table[%d], true)", c.FuncKey(fn), k, k), bad)
	}
}

// guardsHoldUnder: no comparison on the way to b, evaluated with the given values, comes out against the edge taken.
func guardsHoldUnder(c *Ctx, b *ssa.BasicBlock, leaves map[ssa.Value]int64) bool {
	for _, g := range guardsOf(b) {
		if res, decided := cmpUnder(c, g.Cond, leaves); decided && res != g.Truth {
			return false
		}
	}
	return true
}

// cmpUnder evaluates a comparison of integer expressions under the given values.
func cmpUnder(c *Ctx, cond ssa.Value, leaves map[ssa.Value]int64) (res, decided bool) {
	neg := false
	for {
		u, ok := cond.(*ssa.UnOp)
		if !ok || u.Op != token.NOT {
			break
		}
		cond, neg = u.X, !neg
	}
	bin, ok := cond.(*ssa.BinOp)
	if !ok {
		return false, false
	}
	a, ok1 := evalIntExpr(c, bin.X, leaves, nil, 0)
	b, ok2 := evalIntExpr(c, bin.Y, leaves, nil, 0)
	if !ok1 || !ok2 {
		return false, false
	}
	switch bin.Op {
	case token.EQL:
		res = a == b
	case token.NEQ:
		res = a != b
	case token.LSS:
		res = a < b
	case token.LEQ:
		res = a <= b
	case token.GTR:
		res = a > b
	case token.GEQ:
		res = a >= b
	default:
		return false, false
	}
	return res != neg, true
}

// reachableUnder: the blocks some path from the entry reaches when every comparison that the given values decide is
// taken the way it comes out (undecided branches go both ways).
func reachableUnder(c *Ctx, fn *ssa.Function, leaves map[ssa.Value]int64) map[*ssa.BasicBlock]bool {
	seen := map[*ssa.BasicBlock]bool{}
	if len(fn.Blocks) == 0 {
		return seen
	}
	stack := []*ssa.BasicBlock{fn.Blocks[0]}
	for len(stack) > 0 {
		b := stack[len(stack)-1]
		stack = stack[:len(stack)-1]
		if seen[b] {
			continue
		}
		seen[b] = true
		if iff, ok := b.Instrs[len(b.Instrs)-1].(*ssa.If); ok {
			if res, decided := cmpUnder(c, iff.Cond, leaves); decided {
				if res {
					stack = append(stack, b.Succs[0])
				} else {
					stack = append(stack, b.Succs[1])
				}
				continue
			}
		}
		stack = append(stack, b.Succs...)
	}
	return seen
}

func init() {
	register(&Rule{Name: "LINT-NILPHI", Floor: 0, Run: ruleNilPhi, Fixture: "fixture.useOfMaybeUnset",
		Doc: "a pointer or interface variable that is still nil on one way into a join (an assignment missing on one branch) is not dereferenced or invoked after the join without a test against nil"})
}

func ruleNilPhi(c *Ctx, r *Rep) {
	for _, fn := range c.Funcs {
		n := 0
		for _, b := range fn.Blocks {
			for _, ins := range b.Instrs {
				phi, ok := ins.(*ssa.Phi)
				if !ok {
					break // phis lead the block
				}
				_, isPtr := phi.Type().Underlying().(*types.Pointer)
				_, isIface := phi.Type().Underlying().(*types.Interface)
				if !isPtr && !isIface || isErrorType(phi.Type()) {
					continue
				}
				nilEdge := false
				for _, e := range phi.Edges {
					if k, ok := e.(*ssa.Const); ok && k.IsNil() {
						nilEdge = true
					}
				}
				if !nilEdge {
					continue
				}
				n++
				bad, pos := "", phi.Pos()
				for _, ref := range *phi.Referrers() {
					deref := ""
					switch u := ref.(type) {
					case *ssa.FieldAddr:
						if u.X == ssa.Value(phi) {
							deref = "field " + fieldOfAddr(u).Name() + " addressed"
						}
					case *ssa.UnOp:
						if u.Op == token.MUL && u.X == ssa.Value(phi) {
							deref = "loaded through"
						}
					case *ssa.Call:
						if u.Call.IsInvoke() && u.Call.Value == ssa.Value(phi) {
							deref = "method " + u.Call.Method.Name() + " invoked"
						}
					}
					if deref == "" {
						continue
					}
					guarded := false
					for _, g := range guardsOf(ref.Block()) {
						if x, isNil, ok := nilTestOf(g.Cond, g.Truth); ok && x == ssa.Value(phi) && !isNil {
							guarded = true
						}
					}
					if !guarded {
						bad, pos = deref+" without a test against nil", ref.Pos()
					}
				}
				if !pos.IsValid() {
					pos = fn.Pos()
				}
				r.Check(bad == "", sprintf("join|%s#%d", c.FuncKey(fn), n), c.Pos(pos), "a value that is nil on one way in is tested before it is used", bad)
			}
		}
	}
}

func init() {
	register(&Rule{Name: "LINT-PADCOPY", Floor: 0, Run: rulePadCopy, Fixture: "fixture.padCopyWrongOffset",
		Doc: "where bytes are copied to the end of a buffer at an offset computed from lengths, the offset is len(buffer) - len(source), so the value keeps its low-order end and is padded in front"})
}

func rulePadCopy(c *Ctx, r *Rep) {
	pv := c.newProv()
	same := func(a, b ssa.Value) bool {
		if a == b {
			return true
		}
		if sameLoad(a, b) {
			return true
		}
		oa, ob := pv.Origins(a), pv.Origins(b)
		return len(oa) == 1 && len(ob) == 1 && oa[0] == ob[0] && !strings.HasPrefix(oa[0], "?")
	}
	for _, fn := range c.Funcs {
		n := 0
		for _, ci := range callsIn(fn) {
			b, ok := ci.Common().Value.(*ssa.Builtin)
			if !ok || b.Name() != "copy" {
				continue
			}
			// a source copied to the front of a buffer of another length that is then read as a big-endian number (a
			// scalar handed to the curve): a shorter source must go to the low-order end
			if mk, isMk := ci.Common().Args[0].(*ssa.MakeSlice); isMk {
				src0 := ci.Common().Args[1]
				if of, _, okL := lenPlus(mk.Len); !okL || !same(of, src0) {
					bigEndian := ""
					for _, ref := range *mk.Referrers() {
						if use, ok := ref.(ssa.CallInstruction); ok && use != ci {
							name := calleeFullName(use)
							if use.Common().IsInvoke() {
								name = use.Common().Method.Name()
							}
							if strings.Contains(name, "ScalarBaseMult") || strings.Contains(name, "ScalarMult") || strings.HasSuffix(name, "SetBytes") {
								bigEndian = name
							}
						}
					}
					if bigEndian != "" {
						n++
						r.Check(false, sprintf("offset|%s#%d", c.FuncKey(fn), n), c.Pos(ci.Pos()), "len(buffer) - len(source)", "copied to the front of a buffer that "+bigEndian+" reads as a big-endian number")
					}
				}
				continue
			}
			dst, ok := ci.Common().Args[0].(*ssa.Slice)
			if !ok || dst.Low == nil || dst.High != nil || !mentionsLen(dst.Low, 0) {
				continue
			}
			src := ci.Common().Args[1]
			n++
			okOff, found := false, "another expression of lengths"
			if sub, isBin := dst.Low.(*ssa.BinOp); isBin {
				lx, isLx := lenOperand(sub.X)
				ly, isLy := lenOperand(sub.Y)
				if isLx && isLy {
					found = "len(…) " + sub.Op.String() + " len(…)"
					okOff = sub.Op == token.SUB && same(lx, dst.X) && same(ly, src)
				}
			}
			r.Check(okOff, sprintf("offset|%s#%d", c.FuncKey(fn), n), c.Pos(ci.Pos()), "len(buffer) - len(source)", found)
			if !okOff {
				continue
			}
			// the offset is not negative: on the way to the copy a test has established len(source) <= len(buffer)
			// (a loop that goes on while the source is longer, or a rejection), or the buffer is made at least as long
			fits, how := false, "no test on the way relates the two lengths"
			if mk, ok := dst.X.(*ssa.MakeSlice); ok {
				if x, k, ok := lenPlus(mk.Len); ok && k >= 0 && same(x, src) {
					fits, how = true, "the buffer is made with the source's length"
				}
			}
			for _, g := range guardsOf(ci.Block()) {
				bin, ok := g.Cond.(*ssa.BinOp)
				if !ok {
					continue
				}
				lx, isLx := lenOperand(bin.X)
				ly, isLy := lenOperand(bin.Y)
				if !isLx || !isLy {
					continue
				}
				op := bin.Op
				if !g.Truth {
					op = negateCmp(op)
				}
				// a field read again after the test counts as the same value when nothing stores to the field
				// behind the test
				same2 := func(a, b ssa.Value) bool {
					if same(a, b) {
						return true
					}
					if !sameFieldLoad(a, b) {
						return false
					}
					idx := 0
					if !g.Truth {
						idx = 1
					}
					succ := g.If.Block().Succs[idx]
					for _, blk := range fn.Blocks {
						if !succ.Dominates(blk) {
							continue
						}
						for _, ins := range blk.Instrs {
							if st, ok := ins.(*ssa.Store); ok {
								if ld, ok := st.Addr.(*ssa.FieldAddr); ok {
									if fa, ok := a.(*ssa.UnOp).X.(*ssa.FieldAddr); ok && fa.X == ld.X && fa.Field == ld.Field {
										return false
									}
								}
							}
						}
					}
					return true
				}
				// normalise to  len(source) OP len(buffer)
				switch {
				case same2(lx, src) && same2(ly, dst.X):
				case same2(ly, src) && same2(lx, dst.X):
					op = flipCmp(op)
				default:
					continue
				}
				if op == token.LEQ || op == token.LSS || op == token.EQL {
					fits, how = true, "len(source) "+op.String()+" len(buffer) holds on the way"
				}
			}
			r.Check(fits, sprintf("fits|%s#%d", c.FuncKey(fn), n), c.Pos(ci.Pos()), "len(source) <= len(buffer) is established before the padded copy", how)
		}
	}
}

// sameLoad: two reads of the same variable or field in one block with no store or call between them.
func sameLoad(a, b ssa.Value) bool {
	la, ok1 := a.(*ssa.UnOp)
	lb, ok2 := b.(*ssa.UnOp)
	if !ok1 || !ok2 || la.Op != token.MUL || lb.Op != token.MUL || la.Block() != lb.Block() {
		return false
	}
	sameAddr := la.X == lb.X
	if fa, ok := la.X.(*ssa.FieldAddr); ok && !sameAddr {
		if fb, ok := lb.X.(*ssa.FieldAddr); ok {
			sameAddr = fa.X == fb.X && fa.Field == fb.Field
		}
	}
	if !sameAddr {
		return false
	}
	in := false
	for _, ins := range la.Block().Instrs {
		if ins == ssa.Instruction(la) || ins == ssa.Instruction(lb) {
			if in {
				return true
			}
			in = true
			continue
		}
		if !in {
			continue
		}
		switch ins.(type) {
		case *ssa.Store, ssa.CallInstruction, *ssa.MapUpdate:
			if call, ok := ins.(*ssa.Call); ok {
				if _, isBuiltin := call.Call.Value.(*ssa.Builtin); isBuiltin {
					continue
				}
			}
			return false
		}
	}
	return false
}

// lenBoundFromGuards: an upper bound (exclusive) on the valid indexes of s in block b that the branch conditions on
// the way establish: len(s) == n, len(s) <= n, len(s) < n on the edge taken.
func lenBoundFromGuards(s ssa.Value, b *ssa.BasicBlock) (int64, bool) {
	best, have := int64(0), false
	for _, g := range guardsOf(b) {
		cond, truth := g.Cond, g.Truth
		if u, ok := cond.(*ssa.UnOp); ok && u.Op == token.NOT {
			cond, truth = u.X, !truth
		}
		bin, ok := cond.(*ssa.BinOp)
		if !ok {
			continue
		}
		of, isLen := lenOperand(bin.X)
		k, isK := bin.Y.(*ssa.Const)
		op := bin.Op
		if !isLen || !isK {
			of, isLen = lenOperand(bin.Y)
			k, isK = bin.X.(*ssa.Const)
			op = map[token.Token]token.Token{token.LSS: token.GTR, token.GTR: token.LSS, token.LEQ: token.GEQ, token.GEQ: token.LEQ, token.EQL: token.EQL, token.NEQ: token.NEQ}[op]
		}
		if !isLen || !isK || k.Value == nil || of != s {
			continue
		}
		if !truth {
			op = map[token.Token]token.Token{token.LSS: token.GEQ, token.GEQ: token.LSS, token.GTR: token.LEQ, token.LEQ: token.GTR, token.EQL: token.NEQ, token.NEQ: token.EQL}[op]
		}
		// on this edge: len(s) op k
		var bound int64
		switch op {
		case token.EQL, token.LEQ:
			bound = k.Int64()
		case token.LSS:
			bound = k.Int64() - 1
		default:
			continue
		}
		if !have || bound < best {
			best, have = bound, true
		}
	}
	return best, have
}

// ---------------------------------------------------------------------------

func init() {
	register(&Rule{Name: "SCHEMA-VERSION", Floor: 1, Run: ruleSchemaVersion,
		Doc: "the configuration reader of a package is registered under exactly the version numbers the package's embedded schemas admit for the version field, and every request for a reader by constant number asks for a registered one"})
	register(&Rule{Name: "DEFAULT-WHEN-EMPTY", Floor: 1, Run: ruleDefaultWhenEmpty,
		Doc: "an omitted key or signature algorithm is not an unknown one: where the name is looked up in the algorithm table, the error for a name that is not in it lies behind a test that the name is non-empty"})
}

func schemaIntEnum(c *Ctx, pkgSuffix, file string, path ...string) ([]int64, string) {
	b, _, err := c.EmbeddedFile(pkgSuffix, file)
	if err != nil {
		return nil, err.Error()
	}
	var cur any
	if err := json.Unmarshal(b, &cur); err != nil {
		return nil, err.Error()
	}
	for _, p := range path {
		m, ok := cur.(map[string]any)
		if !ok {
			return nil, "schema path " + strings.Join(path, ".") + " not found in " + file
		}
		cur = m[p]
	}
	list, ok := cur.([]any)
	if !ok {
		return nil, "no enum at " + strings.Join(path, ".") + " in " + file
	}
	var out []int64
	for _, x := range list {
		if f, ok := x.(float64); ok && f == float64(int64(f)) {
			out = append(out, int64(f))
		}
	}
	return out, ""
}

func ruleSchemaVersion(c *Ctx, r *Rep) {
	// the registry: a package-level map[int]<interface>; its writer and reader by parameter
	var reg *ssa.Global
	var adder, getter *ssa.Function
	for _, fn := range c.Funcs {
		if fn.Parent() != nil || len(fn.Params) == 0 {
			continue
		}
		for _, b := range fn.Blocks {
			for _, ins := range b.Instrs {
				switch x := ins.(type) {
				case *ssa.MapUpdate:
					if g := loadedGlobal(x.Map); g != nil && x.Key == ssa.Value(fn.Params[0]) && isIntKeyedIfaceMap(g.Type()) {
						reg, adder = g, fn
					}
				case *ssa.Lookup:
					if g := loadedGlobal(x.X); g != nil && x.Index == ssa.Value(fn.Params[0]) && isIntKeyedIfaceMap(g.Type()) {
						getter = fn
					}
				}
			}
		}
	}
	if reg == nil || adder == nil {
		r.Undecided("anchor:reader-registry", "", "no package-level map[int]<interface> written by a function under its first parameter")
		return
	}
	registered := map[int64]bool{}
	n := 0
	for _, fn := range c.Funcs {
		for _, ci := range callsIn(fn) {
			if ci.Common().StaticCallee() != adder {
				continue
			}
			n++
			k, ok := ci.Common().Args[0].(*ssa.Const)
			if !ok || k.Value == nil {
				r.Undecided("shape:registration|"+c.FuncKey(fn), c.Pos(ci.Pos()), "registered under a number that is not a constant")
				continue
			}
			registered[k.Int64()] = true
			// the schemas embedded in the registering package
			pkgSuffix := strings.TrimPrefix(fn.Pkg.Pkg.Path(), c.Mod+"/")
			for _, file := range []string{"certificate.json", "profile.json"} {
				enum, why := schemaIntEnum(c, pkgSuffix, file, "properties", "version", "enum")
				if why != "" {
					r.Undecided("anchor:"+file, c.Pos(ci.Pos()), why)
					continue
				}
				in := false
				for _, e := range enum {
					if e == k.Int64() {
						in = true
					}
				}
				r.Check(in && len(enum) == 1, sprintf("registered-version|%s|%s", c.shortPkg(fn.Pkg.Pkg.Path()), file), c.Pos(ci.Pos()),
					sprintf("registered under the one version %s admits: %v", file, enum), sprintf("%d", k.Int64()))
			}
		}
	}
	if n == 0 {
		r.Bad("registration", c.FnPos(adder), "a configuration reader is registered", "no call of "+c.FuncKey(adder))
	}
	if getter != nil {
		for _, fn := range c.Funcs {
			k := 0
			for _, ci := range callsIn(fn) {
				if ci.Common().StaticCallee() != getter {
					continue
				}
				if kc, ok := ci.Common().Args[0].(*ssa.Const); ok && kc.Value != nil {
					k++
					r.Check(registered[kc.Int64()], sprintf("requested-version|%s#%d", c.FuncKey(fn), k), c.Pos(ci.Pos()), "a registered version", sprintf("%d", kc.Int64()))
				}
			}
		}
	}
}

func isIntKeyedIfaceMap(t types.Type) bool {
	if p, ok := t.Underlying().(*types.Pointer); ok {
		t = p.Elem()
	}
	m, ok := t.Underlying().(*types.Map)
	if !ok {
		return false
	}
	b, ok := m.Key().Underlying().(*types.Basic)
	if !ok || b.Info()&types.IsInteger == 0 {
		return false
	}
	_, isIface := m.Elem().Underlying().(*types.Interface)
	return isIface
}

func ruleDefaultWhenEmpty(c *Ctx, r *Rep) {
	pv := c.newProv()
	n := 0
	// the name tables may be functions func(string) (T, bool): a call of one is a lookup like one in a map
	tableFns := map[*ssa.Function]bool{}
	for _, t := range []string{"KeyAlgorithm", "SignatureAlgorithm"} {
		if gs := c.globalsOfType(func(ty types.Type) bool { return isMapOf(ty, isString, c.isModNamed(t)) }); len(gs) == 0 {
			if _, at, why := nameTableByFolding(c, t); why == "" {
				if f, ok := at.(*ssa.Function); ok && isBoolType(f.Signature.Results().At(1).Type()) {
					tableFns[f] = true
				}
			}
		}
	}
	type lookupSite struct {
		Index ssa.Value
		refs  *[]ssa.Instruction
		pos   token.Pos
	}
	for _, fn := range c.Funcs {
		k := 0
		for _, b := range fn.Blocks {
			for _, ins := range b.Instrs {
				var lk *lookupSite
				switch x := ins.(type) {
				case *ssa.Lookup:
					if x.CommaOk && loadedGlobal(x.X) != nil {
						lk = &lookupSite{x.Index, x.Referrers(), x.Pos()}
					}
				case *ssa.Call:
					if f := x.Call.StaticCallee(); f != nil && tableFns[f] && len(x.Call.Args) == 1 {
						lk = &lookupSite{x.Call.Args[0], x.Referrers(), x.Pos()}
					}
				}
				if lk == nil {
					continue
				}
				if !isString(lk.Index.Type()) {
					continue // a lookup by the parsed algorithm, not by its name
				}
				o := pv.Origins(lk.Index)
				if len(o) != 1 {
					continue
				}
				named := o[0]
				// the name may arrive as a parameter of a helper: what its callers hand in
				for i, prm := range fn.Params {
					if o[0] != "P("+c.FuncKey(fn)+"."+prm.Name()+")" {
						continue
					}
					for _, caller := range c.Funcs {
						for _, ci := range callsIn(caller) {
							if ci.Common().StaticCallee() == fn && i < len(ci.Common().Args) {
								if ao := pv.Origins(ci.Common().Args[i]); len(ao) == 1 {
									named = ao[0]
								}
							}
						}
					}
				}
				if !(strings.HasSuffix(named, ".KeyAlgorithm") || strings.HasSuffix(named, ".SignatureAlgorithm")) {
					continue
				}
				// the exits that report the name as unknown: error returns behind `ok == false`
				missExits := 0
				for _, ref := range *lk.refs {
					ex, isEx := ref.(*ssa.Extract)
					if !isEx || ex.Index != 1 {
						continue
					}
					for _, ret := range returnsOf(fn) {
						if !returnsNonNilError(ret) {
							continue
						}
						behindMiss := false
						for _, g := range guardsOf(ret.Block()) {
							cond, truth := g.Cond, g.Truth
							if u, isNot := cond.(*ssa.UnOp); isNot && u.Op == token.NOT {
								cond, truth = u.X, !truth
							}
							// ok may have been stored into a variable first: compare through loads of the same cell
							if cond == ssa.Value(ex) && !truth || storedThenLoaded(ex, cond) && !truth {
								behindMiss = true
							}
						}
						if !behindMiss {
							continue
						}
						k++
						n++
						missExits++
						okGuard, found := false, "no test of the name on the way"
						for _, g := range guardsOf(ret.Block()) {
							x, empty, isTest := emptyTestOf(g.Cond, g.Truth)
							if !isTest {
								continue
							}
							if xo := pv.Origins(x); len(xo) == 1 && xo[0] == o[0] {
								if !empty {
									okGuard, found = true, "so"
								} else {
									found = "behind the test that the name is empty"
								}
							}
						}
						field := named[strings.LastIndex(named, ".")+1:]
						r.Check(okGuard, sprintf("unknown-only-when-given|%s|%s#%d", field, c.FuncKey(fn), k), c.Pos(ret.Pos()), "the error for an unknown "+field+" lies behind a test that the name is non-empty", found)
					}
				}
				r.Check(missExits > 0, sprintf("unknown-is-error|%s|%s", named[strings.LastIndex(named, ".")+1:], c.FuncKey(fn)), c.Pos(lk.pos), "a name that is not in the table makes the function return an error (behind ok == false)", sprintf("%d such exits", missExits))
			}
		}
	}
	if n == 0 {
		r.Undecided("anchor:algorithm-lookup", "", "no table lookup keyed by the KeyAlgorithm / SignatureAlgorithm field with an error for a miss")
	}
}

// storedThenLoaded: v is stored into a local cell and cond is a load of that cell.
func storedThenLoaded(v ssa.Value, cond ssa.Value) bool {
	ld, ok := cond.(*ssa.UnOp)
	if !ok || ld.Op != token.MUL {
		return false
	}
	for _, ref := range *v.Referrers() {
		if st, ok := ref.(*ssa.Store); ok && st.Val == v && st.Addr == ld.X {
			return true
		}
	}
	return false
}

// ---------------------------------------------------------------------------

func init() {
	register(&Rule{Name: "PARSE-EXT", Floor: 1, Run: ruleParseExt,
		Doc: "the reader of the extension list looks at every field of an entry (field index 0 up to NumField()-1), takes a non-nil one as the extension, refuses a second one and refuses an entry without any: the found-flag starts false, becomes true only behind the non-nil test, a set flag before taking one and a clear flag after the fields are errors"})
}

func ruleParseExt(c *Ctx, r *Rep) {
	// the reader: []AnyExtension -> ([]ExtensionConfig, error)
	var fn *ssa.Function
	for _, f := range c.Funcs {
		if f.Parent() != nil || len(f.Params) != 1 || f.Signature.Results().Len() != 2 {
			continue
		}
		ps, ok1 := f.Params[0].Type().Underlying().(*types.Slice)
		rs0, ok2 := f.Signature.Results().At(0).Type().Underlying().(*types.Slice)
		if ok1 && ok2 && strings.HasSuffix(typeShort(c, ps.Elem()), "AnyExtension") && strings.HasSuffix(typeShort(c, rs0.Elem()), "ExtensionConfig") {
			fn = f
		}
	}
	if fn == nil {
		r.Undecided("anchor:extension-reader", "", "no func([]AnyExtension) ([]ExtensionConfig, error)")
		return
	}
	fk := c.FuncKey(fn)
	r.Ok("reader|"+fk, c.FnPos(fn), "the reader of the extension list", "found")
	loops := naturalLoops(fn)
	// the loop over the fields: its variable indexes reflect's Field(j)
	var fieldVar *ssa.Phi
	for _, ci := range callsIn(fn) {
		if calleeFullName(ci) == "(reflect.Value).Field" && len(ci.Common().Args) == 2 {
			if p, ok := ci.Common().Args[1].(*ssa.Phi); ok {
				fieldVar = p
			}
		}
	}
	if fieldVar == nil {
		return // not written over reflect's field list: the remaining obligations do not apply
	}
	inner := loops[fieldVar.Block()]
	if inner == nil {
		r.Undecided("shape:field-loop|"+fk, c.Pos(fieldVar.Pos()), "the field index is not a loop variable")
		return
	}
	// range of the field index: 0 .. NumField()-1
	{
		init, next, ok := carriedRound(fieldVar, inner)
		good, how := false, "not a counted loop"
		if ok {
			how = "from " + init.String() + ", next " + next.String()
			if iff, isIf := lastInstr(fieldVar.Block()).(*ssa.If); isIf {
				if bin, isBin := iff.Cond.(*ssa.BinOp); isBin && bin.X == ssa.Value(fieldVar) && bin.Op == token.LSS && inner[fieldVar.Block().Succs[0]] {
					if call, isCall := bin.Y.(*ssa.Call); isCall && calleeFullName(call) == "(reflect.Value).NumField" {
						good = isConstInt(init, 0) && plusOne(next, fieldVar)
						how += ", while index < NumField()"
					}
				}
			}
		}
		r.Check(good, "all-fields|"+fk, c.Pos(fieldVar.Pos()), "field index 0, 1, … while below NumField()", how)
		// and no field is skipped by leaving the loop: the loop ends through its condition or by returning
		h := fieldVar.Block()
		early := ""
		for _, sc := range h.Succs {
			if inner[sc] {
				continue
			}
			for _, p := range sc.Preds {
				if p != h && h.Dominates(p) {
					early = "left early"
					if at := firstPos(p); at != "" {
						early = "left early at " + at
					}
				}
			}
		}
		r.Check(early == "", "all-fields-seen|"+fk, c.Pos(fieldVar.Pos()), "the loop over the fields is left only when all fields were looked at, or by returning", early)
	}
	// the flag: a boolean phi at the head of the field loop
	for _, ins := range fieldVar.Block().Instrs {
		flag, ok := ins.(*ssa.Phi)
		if !ok {
			break
		}
		if bt, isB := flag.Type().Underlying().(*types.Basic); !isB || bt.Kind() != types.Bool {
			continue
		}
		hit := func(b *ssa.BasicBlock) bool {
			for _, g := range guardsOf(b) {
				if call, ok := g.Cond.(*ssa.Call); ok && !g.Truth && calleeFullName(call) == "(reflect.Value).IsNil" {
					return true
				}
			}
			return false
		}
		okSrc, how := true, ""
		nTrue := 0
		for _, pe := range phiEdges(flag, flag.Block()) {
			k, isK := pe.Val.(*ssa.Const)
			if !isK || k.Value == nil {
				okSrc, how = false, "set from "+pe.Val.String()
				continue
			}
			if constBool(k) {
				nTrue++
				if !hit(pe.From) {
					okSrc, how = false, "set true at "+c.Pos(pe.From.Instrs[0].Pos())+" without the non-nil test before it"
				}
			} else if inner[pe.From] {
				okSrc, how = false, "cleared inside the loop over the fields"
			}
		}
		if nTrue == 0 {
			okSrc, how = false, "never set"
		}
		r.Check(okSrc, "found-flag|"+fk, c.Pos(flag.Pos()), "false before the fields, true only behind a non-nil field", how)
		// its tests
		dupl, none := false, false
		for _, b := range fn.Blocks {
			iff, ok := lastInstr(b).(*ssa.If)
			if !ok {
				continue
			}
			cond, neg := iff.Cond, false
			if u, isNot := cond.(*ssa.UnOp); isNot && u.Op == token.NOT {
				cond, neg = u.X, true
			}
			isFlag := cond == ssa.Value(flag)
			if p, isPhi := cond.(*ssa.Phi); isPhi && !isFlag {
				for _, e := range p.Edges {
					if e == ssa.Value(flag) {
						isFlag = true // the flag as it stands after the loop
					}
				}
			}
			if !isFlag {
				continue
			}
			setIdx, clearIdx := 0, 1
			if neg {
				setIdx, clearIdx = 1, 0
			}
			if inner[b] {
				ret := exitAfter(b.Succs[setIdx])
				dupl = true
				r.Check(ret != nil && returnsNonNilError(ret), "second-extension-refused|"+fk, c.Pos(iff.Pos()), "a second non-nil field in one entry is an error", sprintf("%v", ret != nil))
			} else {
				ret := exitAfter(b.Succs[clearIdx])
				none = true
				r.Check(ret != nil && returnsNonNilError(ret), "empty-entry-refused|"+fk, c.Pos(iff.Pos()), "an entry without any non-nil field is an error", sprintf("%v", ret != nil))
			}
		}
		r.Check(dupl && none, "flag-tested|"+fk, c.Pos(flag.Pos()), "the flag is tested before taking a field and after the fields", sprintf("before: %v, after: %v", dupl, none))
	}
}

// ---------------------------------------------------------------------------

func init() {
	register(&Rule{Name: "RAW-TABLE", Floor: 3, Run: ruleRawTable,
		Doc: "the handler every extension reader calls first decides by raw and content as documented, on every path: neither given - the builder that demands an override; both - an error; raw alone - the constant extension from the raw bytes; content a binary string - the constant extension from its bytes; other content - nothing (the reader builds it)"})
}

func ruleRawTable(c *Ctx, r *Rep) {
	// the handler: func(any) (ExtensionBuilder, error) in the v1 package
	var fn *ssa.Function
	for _, f := range c.Funcs {
		if f.Parent() != nil || len(f.Params) != 1 || f.Signature.Results().Len() != 2 {
			continue
		}
		if _, isAny := f.Params[0].Type().Underlying().(*types.Interface); !isAny {
			continue
		}
		if strings.HasSuffix(typeShort(c, f.Signature.Results().At(0).Type()), "cert.ExtensionBuilder") && isErrorType(f.Signature.Results().At(1).Type()) {
			if fn != nil {
				r.Undecided("anchor:common-handler", "", "more than one func(any) (ExtensionBuilder, error)")
				return
			}
			fn = f
		}
	}
	if fn == nil {
		r.Undecided("anchor:common-handler", "", "no func(any) (ExtensionBuilder, error)")
		return
	}
	if hasLoop(fn) {
		r.Undecided("shape:"+c.FuncKey(fn), c.FnPos(fn), "the handler has a loop: its paths are not enumerated")
		return
	}
	fk := c.FuncKey(fn)
	pv := c.newProv()
	a := &atomizer{c: c, pv: pv, fn: fn, normEmpty: true}
	// the atoms of the decision
	classify := func(atom string) string {
		switch {
		case strings.HasPrefix(atom, "empty(") && strings.Contains(atom, "\"Raw\""):
			return "rawEmpty"
		case strings.HasPrefix(atom, "empty(") && strings.Contains(atom, "\"Content\""):
			return "ctEmptyString"
		case strings.Contains(atom, "IsZero(") && strings.Contains(atom, "\"Content\""):
			return "ctZero"
		case strings.Contains(atom, "HasPrefix(") && strings.Contains(strings.SplitN(atom, " ; ", 2)[0], "\"Content\""):
			return "ctBinary"
		case strings.Contains(atom, "Kind(") && strings.Contains(atom, "\"Content\"") && strings.Contains(atom, "K(0)"):
			return "ctKindInvalid:" + atom[:2]
		case strings.Contains(atom, "IsValid(") && strings.Contains(atom, "\"Content\""):
			return "ctKindInvalid:!=" // IsValid() is Kind() != Invalid
		}
		return ""
	}
	for i, ret := range returnsOf(fn) {
		res := retResults(ret)
		kind := "?"
		// `return helper(…)`: both results are the helper's; what the helper can answer decides the kind of exit
		pairOf := func() *ssa.Call {
			if len(res) != 2 {
				return nil
			}
			e0, ok0 := res[0].(*ssa.Extract)
			e1, ok1 := res[1].(*ssa.Extract)
			if !ok0 || !ok1 || e0.Tuple != e1.Tuple {
				return nil
			}
			call, _ := e0.Tuple.(*ssa.Call)
			return call
		}
		var helperKind func(h *ssa.Function, depth int) string
		helperKind = func(h *ssa.Function, depth int) string {
			if h == nil || !c.InModule(h) || h.Blocks == nil || hasLoop(h) || depth > 3 {
				return "?"
			}
			out := ""
			for _, hr := range returnsOf(h) {
				rr := retResults(hr)
				k := "?"
				switch {
				case len(rr) == 2 && returnsNonNilError(hr) && func() bool { _, isEx := rr[1].(*ssa.Extract); return !isEx }():
					k = "error"
				default:
					switch v := rr[0].(type) {
					case *ssa.MakeInterface:
						t := typeShort(c, v.X.Type())
						switch {
						case strings.HasSuffix(t, "OverrideNeededBuilder"):
							k = "override-needed"
						case strings.HasSuffix(t, "ConstantBuilder"):
							k = "constant"
						}
					case *ssa.Extract:
						if call, ok := v.Tuple.(*ssa.Call); ok {
							k = helperKind(call.Call.StaticCallee(), depth+1)
						}
					case *ssa.Call:
						k = helperKind(v.Call.StaticCallee(), depth+1)
					}
				}
				if k == "error" {
					continue // the helper's own failure exits do not change what its success is
				}
				if out == "" {
					out = k
				} else if out != k {
					return "?"
				}
			}
			if out == "" {
				return "error"
			}
			return out
		}
		if call := pairOf(); call != nil && call.Call.StaticCallee() != nil && c.InModule(call.Call.StaticCallee()) {
			kind = helperKind(call.Call.StaticCallee(), 0)
			if kind == "constant" {
				o := ""
				for _, a := range call.Call.Args {
					o += " " + strings.Join(pv.Origins(a), " ")
				}
				switch {
				case strings.Contains(o, "\"Raw\""):
					kind = "constant-from-raw"
				case strings.Contains(o, "\"Content\""):
					kind = "constant-from-content"
				}
			}
		}
		switch {
		case kind != "?":
		case returnsNonNilError(ret):
			kind = "error"
		default:
			switch v := res[0].(type) {
			case *ssa.Const:
				kind = "nothing"
			case *ssa.Call:
				// a helper of the module that wraps its arguments into the builder
				if h := v.Call.StaticCallee(); h != nil && c.InModule(h) && h.Blocks != nil && !hasLoop(h) {
					for _, hr := range returnsOf(h) {
						if mi, ok := retResults(hr)[0].(*ssa.MakeInterface); ok {
							t := typeShort(c, mi.X.Type())
							switch {
							case strings.HasSuffix(t, "OverrideNeededBuilder"):
								kind = "override-needed"
							case strings.HasSuffix(t, "ConstantBuilder"):
								kind = "constant"
								o := strings.Join(pv.Origins(v), " ")
								switch {
								case strings.Contains(o, "\"Raw\""):
									kind = "constant-from-raw"
								case strings.Contains(o, "\"Content\""):
									kind = "constant-from-content"
								}
							}
						}
					}
				}
			case *ssa.MakeInterface:
				t := typeShort(c, v.X.Type())
				switch {
				case strings.HasSuffix(t, "OverrideNeededBuilder"):
					kind = "override-needed"
				case strings.HasSuffix(t, "ConstantBuilder"):
					kind = "constant"
					o := strings.Join(pv.Origins(v.X), " ")
					switch {
					case strings.Contains(o, "\"Raw\""):
						kind = "constant-from-raw"
					case strings.Contains(o, "\"Content\""):
						kind = "constant-from-content"
					}
				}
			}
		}
		paths, ok := a.pathsDNF(fn.Blocks[0], ret.Block(), 4000)
		if !ok {
			r.Undecided(sprintf("shape:exit|%s#%d", fk, i+1), c.Pos(ret.Pos()), "too many paths")
			continue
		}
		bad := ""
		nFeasible := 0
		if os.Getenv("GOPKICHECK_TRACE") != "" {
			for _, p := range paths {
				fmt.Fprintf(os.Stderr, "RAW-TABLE exit %d %s: %v\n", i+1, kind, p)
			}
		}
		for _, p := range paths {
			asg := map[string]bool{}
			env := false
			feasible := true
			seen := map[string]bool{}
			for _, l := range p {
				if was, dup := seen[l.atom]; dup && was != l.pos {
					feasible = false
				}
				seen[l.atom] = l.pos
				cl := classify(l.atom)
				env = cl == "" // the last test before the exit is one of the handler's own sanity tests
				switch {
				case cl == "":
				case strings.HasPrefix(cl, "ctKindInvalid:"):
					// the atom is `!=(Kind ; 0)` or `==(Kind ; 0)`
					isInvalid := l.pos
					if strings.HasPrefix(cl, "ctKindInvalid:!=") {
						isInvalid = !l.pos
					}
					asg["ctInvalid"] = isInvalid
				default:
					asg[cl] = l.pos
				}
			}
			if !feasible {
				continue
			}
			nFeasible++
			// every completion of what the path left open
			names := []string{"rawEmpty", "ctInvalid", "ctZero", "ctEmptyString", "ctBinary"}
			var free []string
			for _, n := range names {
				if _, ok := asg[n]; !ok {
					free = append(free, n)
				}
			}
			for mask := 0; mask < 1<<len(free); mask++ {
				v := map[string]bool{}
				for k, b := range asg {
					v[k] = b
				}
				for j, n := range free {
					v[n] = mask&(1<<j) != 0
				}
				if v["ctInvalid"] && !v["ctZero"] {
					continue // a field that does not exist has no value to be non-zero (IsZero is not asked)
				}
				if v["ctEmptyString"] && v["ctBinary"] {
					continue // an empty string does not begin with the prefix
				}
				ctExists := !v["ctInvalid"] && !v["ctZero"]
				binary := !v["ctEmptyString"] && v["ctBinary"]
				want := ""
				switch {
				case v["rawEmpty"] && !ctExists:
					want = "override-needed"
				case !v["rawEmpty"] && ctExists:
					want = "error"
				case !v["rawEmpty"]:
					want = "constant-from-raw"
				case binary:
					want = "constant-from-content"
				default:
					want = "nothing"
				}
				if kind != want && !(kind == "error" && env) {
					bad = sprintf("answers %s where %s is due (raw empty=%v, content exists=%v, content binary=%v)", kind, want, v["rawEmpty"], ctExists, binary)
				}
			}
		}
		if nFeasible == 0 {
			continue
		}
		r.Check(bad == "", sprintf("exit|%s|%s#%d", kind, fk, i+1), c.Pos(ret.Pos()), "the answer the table of raw and content prescribes", bad)
	}
}

// ---------------------------------------------------------------------------

// lenTautology: a comparison of len(x) with a constant that comes out the same for every length (len(x) >= 0, len(x) < 0, …).
func lenTautology(cond ssa.Value) (val, ok bool) {
	bin, isBin := cond.(*ssa.BinOp)
	if !isBin {
		return false, false
	}
	var pred func(n int64) (bool, bool)
	cmp := func(op token.Token, a, b int64) (bool, bool) {
		switch op {
		case token.EQL:
			return a == b, true
		case token.NEQ:
			return a != b, true
		case token.LSS:
			return a < b, true
		case token.LEQ:
			return a <= b, true
		case token.GTR:
			return a > b, true
		case token.GEQ:
			return a >= b, true
		}
		return false, false
	}
	if k, isK := bin.Y.(*ssa.Const); isK && k.Value != nil && k.Value.Kind() == constant.Int {
		if _, isLen := lenOperand(bin.X); isLen {
			pred = func(n int64) (bool, bool) { return cmp(bin.Op, n, k.Int64()) }
		}
	}
	if k, isK := bin.X.(*ssa.Const); isK && k.Value != nil && k.Value.Kind() == constant.Int && pred == nil {
		if _, isLen := lenOperand(bin.Y); isLen {
			pred = func(n int64) (bool, bool) { return cmp(bin.Op, k.Int64(), n) }
		}
	}
	if pred == nil {
		return false, false
	}
	at0, ok0 := pred(0)
	if !ok0 {
		return false, false
	}
	for _, n := range []int64{1, 2, 3, 4, 5, 8, 16, 64, 1 << 20, 1 << 40} {
		if v, _ := pred(n); v != at0 {
			return false, false
		}
	}
	// constant for the lengths tried; a threshold beyond them (len(x) > 100) is not decided here
	if k, isK := bin.Y.(*ssa.Const); isK && k.Value != nil && k.Value.Kind() == constant.Int && k.Int64() > 0 {
		return false, false
	}
	if k, isK := bin.X.(*ssa.Const); isK && k.Value != nil && k.Value.Kind() == constant.Int && k.Int64() > 0 {
		return false, false
	}
	return at0, true
}

func init() {
	register(&Rule{Name: "LINT-TAUTLEN", Floor: 0, Run: ruleTautLen, Fixture: "fixture.lengthNeverNegative",
		Doc: "no branch depends on a comparison of a length with a constant that no length can decide (len(x) >= 0, len(x) < 0), and the length of a string is compared with a constant only to tell empty from non-empty: where the presence of an optional value is tested, the test fails exactly for the empty one (all such tests of today's tree are of this form; the instances are listed in the evidence)"})
}

func ruleTautLen(c *Ctx, r *Rep) {
	n := 0
	for _, fn := range c.Funcs {
		k := 0
		for _, b := range fn.Blocks {
			iff, ok := lastInstr(b).(*ssa.If)
			if !ok {
				continue
			}
			cond := iff.Cond
			if u, isNot := cond.(*ssa.UnOp); isNot && u.Op == token.NOT {
				cond = u.X
			}
			bin, isBin := cond.(*ssa.BinOp)
			if !isBin {
				continue
			}
			_, lx := lenOperand(bin.X)
			_, ly := lenOperand(bin.Y)
			_, kx := bin.X.(*ssa.Const)
			_, ky := bin.Y.(*ssa.Const)
			if !(lx && ky || ly && kx) {
				continue
			}
			k++
			n++
			v, taut := lenTautology(cond)
			kind := "threshold"
			if _, _, isE := emptyTestOf(cond, true); isE {
				kind = "emptiness"
			}
			of, _ := lenOperand(bin.X)
			if of == nil {
				of, _ = lenOperand(bin.Y)
			}
			found := sprintf("a test of %s of a %s", kind, of.Type())
			if taut {
				found = sprintf("always %v", v)
			}
			r.Check(!taut, sprintf("length-test|%s#%d", c.FuncKey(fn), k), c.Pos(bin.Pos()), "a comparison some length decides either way", found)
			if isString(of.Type()) && !taut {
				r.Check(kind == "emptiness", sprintf("string-length-test|%s#%d", c.FuncKey(fn), k), c.Pos(bin.Pos()), "the length of a string is compared with a constant only to tell the empty from the non-empty (an optional value is absent exactly when it is empty)", "a threshold other than emptiness")
			}
		}
	}
	_ = n
	loopGateAtCalls(c, r)
	// a loop over a list behind a test of that list's length: the test lets exactly the non-empty list through. The
	// other way round the loop never runs (the elements are dropped from what is encoded); a higher threshold drops short
	// lists.
	for _, fn := range c.Funcs {
		k := 0
		for h := range naturalLoops(fn) {
			iff, ok := lastInstr(h).(*ssa.If)
			if !ok {
				continue
			}
			cmp, ok := iff.Cond.(*ssa.BinOp)
			if !ok || cmp.Op != token.LSS {
				continue
			}
			list, ok := lenOperand(cmp.Y)
			if !ok {
				continue
			}
			for _, g := range guardsOf(h) {
				cond := g.Cond
				if u, isNot := cond.(*ssa.UnOp); isNot && u.Op == token.NOT {
					cond = u.X
				}
				bin, isBin := cond.(*ssa.BinOp)
				if !isBin {
					continue
				}
				of, isLen := lenOperand(bin.X)
				if _, isK := bin.Y.(*ssa.Const); !isLen || !isK {
					continue
				}
				if !(of == list || sameLoad(of, list) || sameFieldLoad(of, list)) {
					continue
				}
				_, empty, isE := emptyTestOf(g.Cond, g.Truth)
				if !isE && (bin.Op == token.EQL || bin.Op == token.NEQ) {
					continue // an exact count demanded of the list (four octets): not a presence test
				}
				k++
				found := "the list is known to be non-empty"
				switch {
				case !isE:
					found = "a threshold other than emptiness decides whether the list is gone through"
				case empty:
					found = "the loop runs only where the list is known to be empty"
				}
				r.Check(isE && !empty, sprintf("loop-gate|%s#%d", c.FuncKey(fn), k), c.Pos(bin.Pos()), "a loop over a list behind a test of its length: the test lets exactly the non-empty list through", found)
			}
		}
	}
}

// loopGateAtCalls: the same where the loop sits in a helper: a call that hands a list to a module function which
// ranges over that parameter, behind a test of the list's length at the call.
func loopGateAtCalls(c *Ctx, r *Rep) {
	rangesOver := func(h *ssa.Function, prm *ssa.Parameter) bool {
		for hd := range naturalLoops(h) {
			iff, ok := lastInstr(hd).(*ssa.If)
			if !ok {
				continue
			}
			cmp, ok := iff.Cond.(*ssa.BinOp)
			if !ok || cmp.Op != token.LSS {
				continue
			}
			if list, ok := lenOperand(cmp.Y); ok && list == ssa.Value(prm) {
				return true
			}
		}
		return false
	}
	for _, fn := range c.Funcs {
		k := 0
		for _, ci := range callsIn(fn) {
			h := ci.Common().StaticCallee()
			if h == nil || h.Blocks == nil || !c.InModule(h) {
				continue
			}
			for i, a := range ci.Common().Args {
				if _, isSlice := a.Type().Underlying().(*types.Slice); !isSlice || i >= len(h.Params) || !rangesOver(h, h.Params[i]) {
					continue
				}
				for _, g := range guardsOf(ci.Block()) {
					cond := g.Cond
					if u, isNot := cond.(*ssa.UnOp); isNot && u.Op == token.NOT {
						cond = u.X
					}
					bin, isBin := cond.(*ssa.BinOp)
					if !isBin {
						continue
					}
					of, isLen := lenOperand(bin.X)
					if _, isK := bin.Y.(*ssa.Const); !isLen || !isK {
						continue
					}
					if !(of == a || sameLoad(of, a) || sameFieldLoad(of, a)) {
						continue
					}
					_, empty, isE := emptyTestOf(g.Cond, g.Truth)
					if !isE && (bin.Op == token.EQL || bin.Op == token.NEQ) {
						continue
					}
					k++
					found := "the list is known to be non-empty"
					switch {
					case !isE:
						found = "a threshold other than emptiness decides whether the list is gone through"
					case empty:
						found = "the helper that goes through the list is called only where the list is known to be empty"
					}
					r.Check(isE && !empty, sprintf("loop-gate|%s@call#%d", c.FuncKey(fn), k), c.Pos(bin.Pos()), "a list handed to a helper that goes through it, behind a test of its length: the test lets exactly the non-empty list through", found)
				}
			}
		}
	}
}

// ---------------------------------------------------------------------------

func init() {
	register(&Rule{Name: "LINT-ARRFILL", Floor: 0, Run: ruleArrFill, Fixture: "fixture.arrayFilledFromWrongCount",
		Doc: "where a fixed-size array is filled element by element from a list whose length was tested against a constant, that constant is the array's length (four octets for a four-byte address)"})
}

func ruleArrFill(c *Ctx, r *Rep) {
	for _, fn := range c.Funcs {
		arrayNeverFilled(c, r, fn)
		n := 0
		for _, b := range fn.Blocks {
			for _, ins := range b.Instrs {
				ia, ok := ins.(*ssa.IndexAddr)
				if !ok {
					continue
				}
				p, ok := ia.X.Type().Underlying().(*types.Pointer)
				if !ok {
					continue
				}
				arr, ok := p.Elem().Underlying().(*types.Array)
				if !ok {
					continue
				}
				if _, isK := ia.Index.(*ssa.Const); isK {
					continue
				}
				// written here?
				written := false
				for _, ref := range *ia.Referrers() {
					if st, ok := ref.(*ssa.Store); ok && st.Addr == ssa.Value(ia) {
						written = true
					}
				}
				if !written {
					continue
				}
				// the index is bounded by the length of a list: idx < len(s) on the way here
				var list ssa.Value
				for _, g := range guardsOf(b) {
					bin, ok := g.Cond.(*ssa.BinOp)
					if !ok || !g.Truth || bin.Op != token.LSS || bin.X != ia.Index {
						continue
					}
					if s, isLen := lenOperand(bin.Y); isLen {
						list = s
					}
				}
				if list == nil {
					continue
				}
				// what the guards say about len(list)
				established := false
				defer0 := func() {
					// the list is handed in: every caller has established the length before the call
					if prm, isP := list.(*ssa.Parameter); isP && !established {
						idx := -1
						for i, fp := range fn.Params {
							if fp == prm {
								idx = i
							}
						}
						sites, good := 0, 0
						for _, caller := range c.Funcs {
							for _, site := range callsIn(caller) {
								if site.Common().StaticCallee() != fn || idx < 0 || idx >= len(site.Common().Args) {
									continue
								}
								sites++
								arg := site.Common().Args[idx]
								for _, g := range guardsOf(site.Block()) {
									cond, truth := g.Cond, g.Truth
									if u, ok := cond.(*ssa.UnOp); ok && u.Op == token.NOT {
										cond, truth = u.X, !truth
									}
									bin, ok := cond.(*ssa.BinOp)
									if !ok || (bin.Op != token.EQL && bin.Op != token.NEQ) || (bin.Op == token.EQL) != truth {
										continue
									}
									s2, isLen := lenOperand(bin.X)
									k, isK := bin.Y.(*ssa.Const)
									if isLen && isK && k.Value != nil && (s2 == arg || sameLoad(s2, arg)) && k.Int64() == arr.Len() {
										good++
										break
									}
								}
							}
						}
						if sites > 0 && good == sites {
							established = true
							n++
							r.Check(true, sprintf("fill|%s#%d", c.FuncKey(fn), n), c.Pos(ia.Pos()), sprintf("the list has %d elements, as many as the array", arr.Len()), sprintf("%d, established at all %d call sites", arr.Len(), sites))
						}
					}
					if !established {
						n++
						r.Check(false, sprintf("fill|%s#%d", c.FuncKey(fn), n), c.Pos(ia.Pos()), sprintf("on the way to the fill the list is known to have %d elements, as many as the array", arr.Len()), "no test on the way says so")
					}
				}
				for _, g := range guardsOf(b) {
					cond, truth := g.Cond, g.Truth
					if u, ok := cond.(*ssa.UnOp); ok && u.Op == token.NOT {
						cond, truth = u.X, !truth
					}
					bin, ok := cond.(*ssa.BinOp)
					if !ok || (bin.Op != token.EQL && bin.Op != token.NEQ) {
						continue
					}
					s, isLen := lenOperand(bin.X)
					k, isK := bin.Y.(*ssa.Const)
					if !isLen || !isK || k.Value == nil || s != list {
						continue
					}
					if (bin.Op == token.EQL) != truth {
						continue // on this edge the length merely differs from the constant
					}
					n++
					established = true
					r.Check(k.Int64() == arr.Len(), sprintf("fill|%s#%d", c.FuncKey(fn), n), c.Pos(ia.Pos()), sprintf("the list has %d elements, as many as the array", arr.Len()), sprintf("%d", k.Int64()))
				}
				defer0()
			}
		}
	}
}

// arrayNeverFilled: a local array that is handed on whole although nothing ever stores into it (the statement that
// filled it is gone): an address of four zero octets.
func arrayNeverFilled(c *Ctx, r *Rep, fn *ssa.Function) {
	n := 0
	for _, b := range fn.Blocks {
		for _, ins := range b.Instrs {
			// a variable nothing stores into is no variable at all in this form: its zero value is handed on as a constant
			if mi, ok := ins.(*ssa.MakeInterface); ok {
				if k, isK := mi.X.(*ssa.Const); isK {
					if _, isArr := k.Type().Underlying().(*types.Array); isArr {
						if nt, isNamed := k.Type().(*types.Named); isNamed && c.IsModObj(nt.Obj()) {
							pos := mi.Pos()
							if pos == token.NoPos {
								pos = fn.Pos()
							}
							n++
							r.Check(false, sprintf("array-filled|%s#%d", c.FuncKey(fn), n), c.Pos(pos), "an array value that is handed on is stored into somewhere", "the zero value of "+nt.Obj().Name()+" is handed on")
						}
					}
				}
			}
			al, ok := ins.(*ssa.Alloc)
			if !ok {
				continue
			}
			pt, ok := al.Type().Underlying().(*types.Pointer)
			if !ok {
				continue
			}
			if _, isArr := pt.Elem().Underlying().(*types.Array); !isArr {
				continue
			}
			if al.Comment == "makeslice" || al.Comment == "slicelit" || al.Comment == "varargs" || al.Comment == "complit" {
				continue // backing stores made by the compiler for make, literals and variadic calls
			}
			written, read := false, false
			var readAt token.Pos
			for _, ref := range *al.Referrers() {
				switch u := ref.(type) {
				case *ssa.Store:
					if u.Addr == ssa.Value(al) {
						written = true
					}
				case *ssa.IndexAddr:
					for _, r2 := range *u.Referrers() {
						if st, ok := r2.(*ssa.Store); ok && st.Addr == ssa.Value(u) {
							written = true
						}
					}
				case *ssa.Slice:
					written = true // handed out as a slice: may be filled through it
				case *ssa.UnOp:
					if u.Op == token.MUL {
						read, readAt = true, u.Pos()
					}
				case ssa.CallInstruction, *ssa.MakeClosure, *ssa.Phi, *ssa.MakeInterface:
					written = true // address escapes
				}
			}
			if !read {
				continue
			}
			n++
			r.Check(written, sprintf("array-filled|%s#%d", c.FuncKey(fn), n), c.Pos(readAt), "a local array that is handed on whole is stored into somewhere", sprintf("stored into: %v", written))
		}
	}
}

// ---------------------------------------------------------------------------

func init() {
	register(&Rule{Name: "LINT-DEADVALUE", Floor: 0, Run: ruleDeadValue, Fixture: "fixture.encodedAndDropped",
		Doc: "no result of a call is bound to a variable and then never read (the statement that consumed it is missing): every extracted non-error result of a call has a use"})
}

func ruleDeadValue(c *Ctx, r *Rep) {
	for _, fn := range c.Funcs {
		n := 0
		for _, b := range fn.Blocks {
			for _, ins := range b.Instrs {
				if al, isAl := ins.(*ssa.Alloc); isAl {
					if filler, dead := filledNeverRead(al); dead {
						n++
						r.Bad(sprintf("filled|%s|%s", c.FuncKey(fn), al.Comment), c.Pos(filler.Pos()), "a variable filled through its address by "+calleeFullName(filler)+" is read afterwards", "never read")
					}
					continue
				}
				ex, ok := ins.(*ssa.Extract)
				if !ok || isErrorType(ex.Type()) {
					continue
				}
				call, ok := ex.Tuple.(*ssa.Call)
				if !ok {
					continue // comma-ok forms: the flag alone may be wanted
				}
				if bt, isB := ex.Type().Underlying().(*types.Basic); isB && bt.Kind() == types.Bool {
					continue // a found-flag that is not needed
				}
				if lhsBlank(c, call, ex.Index) {
					continue // written off with _ in the source
				}
				n++
				used := hasUses(ex)
				// a variable that lives in memory: the store counts only if the cell is read
				if used {
					onlyDeadStores := true
					for _, ref := range *ex.Referrers() {
						st, isSt := ref.(*ssa.Store)
						if _, dbg := ref.(*ssa.DebugRef); dbg {
							continue
						}
						if !isSt {
							onlyDeadStores = false
							break
						}
						al, isAl := st.Addr.(*ssa.Alloc)
						if !isAl || al.Heap || cellRead(al) {
							onlyDeadStores = false
							break
						}
					}
					used = !onlyDeadStores
				}
				r.Check(used, sprintf("result|%s#%d", c.FuncKey(fn), n), c.Pos(call.Pos()), sprintf("result %d of %s is read somewhere", ex.Index, calleeFullName(call)), "bound and never read")
			}
		}
	}
}

// filledNeverRead: a named variable whose address is handed to calls (to be filled) and which is never read.
func filledNeverRead(al *ssa.Alloc) (ssa.CallInstruction, bool) {
	if al.Comment == "complit" || al.Comment == "new" || al.Comment == "" || strings.HasPrefix(al.Comment, "varargs") {
		return nil, false
	}
	var filler ssa.CallInstruction
	var visit func(v ssa.Value) bool // false: some use other than being handed to a call
	visit = func(v ssa.Value) bool {
		for _, ref := range *v.Referrers() {
			switch x := ref.(type) {
			case *ssa.DebugRef:
			case *ssa.MakeInterface:
				if !visit(x) {
					return false
				}
			case ssa.CallInstruction:
				name := calleeFullName(x)
				if !(strings.HasSuffix(name, ".Unmarshal") || strings.HasSuffix(name, ".UnmarshalWithParams") || strings.HasSuffix(name, ".Decode")) {
					return false // handed to something that may read it
				}
				filler = x
			case *ssa.Store:
				if x.Addr != v {
					return false
				}
			default:
				return false
			}
		}
		return true
	}
	if !visit(al) || filler == nil {
		return nil, false
	}
	return filler, true
}

// cellRead: a local cell is loaded from, or its address escapes.
func cellRead(al *ssa.Alloc) bool {
	for _, ref := range *al.Referrers() {
		switch x := ref.(type) {
		case *ssa.Store:
			if x.Addr != ssa.Value(al) {
				return true
			}
		case *ssa.DebugRef:
		default:
			return true
		}
	}
	return false
}

// lhsBlank: in the source, result idx of the call is assigned to the blank identifier (or the call is not the
// right-hand side of an assignment at all).
func lhsBlank(c *Ctx, call *ssa.Call, idx int) bool {
	_, file := c.FileOf(call.Pos())
	if file == nil {
		return true
	}
	blank, found := false, false
	ast.Inspect(file, func(n ast.Node) bool {
		if found {
			return false
		}
		as, ok := n.(*ast.AssignStmt)
		if !ok || len(as.Rhs) != 1 {
			return true
		}
		ce, ok := as.Rhs[0].(*ast.CallExpr)
		if !ok || ce.Lparen != call.Pos() {
			return true
		}
		found = true
		if idx < len(as.Lhs) {
			if id, ok := as.Lhs[idx].(*ast.Ident); ok && id.Name == "_" {
				blank = true
			}
		}
		return false
	})
	return blank || !found
}

// ---------------------------------------------------------------------------

func init() {
	register(&Rule{Name: "LINT-CONSTSLICE", Floor: 0, Run: ruleConstSlice, Fixture: "fixture.sliceBeyondUnknownLength,fixture.listIntoArray",
		Doc: "a slice or string of run-time length is cut or indexed at a positive constant, or turned into an array, only behind a test that establishes that length (a comparison of its len, a prefix test with a constant at least that long, a match of a constant pattern)"})
}

// lenLowerBound: the largest n such that the guards on the way to b establish len(s) >= n.
func lenLowerBound(c *Ctx, s ssa.Value, b *ssa.BasicBlock) int64 {
	same := func(x ssa.Value) bool { return x == s || sameLoad(x, s) || sameFieldLoad(x, s) }
	best := int64(0)
	for _, g := range guardsOf(b) {
		cond, truth := g.Cond, g.Truth
		if u, ok := cond.(*ssa.UnOp); ok && u.Op == token.NOT {
			cond, truth = u.X, !truth
		}
		switch x := cond.(type) {
		case *ssa.BinOp:
			of, isLen := lenOperand(x.X)
			k, isK := x.Y.(*ssa.Const)
			op := x.Op
			if !isLen || !isK {
				of, isLen = lenOperand(x.Y)
				k, isK = x.X.(*ssa.Const)
				op = map[token.Token]token.Token{token.LSS: token.GTR, token.GTR: token.LSS, token.LEQ: token.GEQ, token.GEQ: token.LEQ, token.EQL: token.EQL, token.NEQ: token.NEQ}[op]
			}
			if lx, okx := lenOperand(x.X); okx {
				if _, oky := lenOperand(x.Y); oky && same(lx) && (x.Op == token.GTR) == truth && (x.Op == token.GTR || x.Op == token.LEQ) {
					// len(s) > len(t): at least one
					if best < 1 {
						best = 1
					}
				}
			}
			if !isK {
				// the length tied to a value computed at run time (len(s) == 1+2*size): what that establishes is not a
				// constant this lint can compare with; it then says nothing about s
				for _, pair := range [][2]ssa.Value{{x.X, x.Y}, {x.Y, x.X}} {
					lx, okx := lenOperand(pair[0])
					if !okx || !same(lx) {
						continue
					}
					if _, isConst := pair[1].(*ssa.Const); isConst {
						continue
					}
					if _, otherLen := lenOperand(pair[1]); otherLen {
						continue
					}
					o := x.Op
					if pair[0] == x.Y {
						o = map[token.Token]token.Token{token.LSS: token.GTR, token.GTR: token.LSS, token.LEQ: token.GEQ, token.GEQ: token.LEQ, token.EQL: token.EQL, token.NEQ: token.NEQ}[o]
					}
					if !truth {
						o = map[token.Token]token.Token{token.LSS: token.GEQ, token.GEQ: token.LSS, token.GTR: token.LEQ, token.LEQ: token.GTR, token.EQL: token.NEQ, token.NEQ: token.EQL}[o]
					}
					if o == token.EQL || o == token.GEQ || o == token.GTR {
						best = 1 << 40
					}
				}
			}
			if !isLen || !isK || k.Value == nil || !same(of) {
				continue
			}
			if !truth {
				op = map[token.Token]token.Token{token.LSS: token.GEQ, token.GEQ: token.LSS, token.GTR: token.LEQ, token.LEQ: token.GTR, token.EQL: token.NEQ, token.NEQ: token.EQL}[op]
			}
			var n int64
			switch op {
			case token.EQL, token.GEQ:
				n = k.Int64()
			case token.GTR:
				n = k.Int64() + 1
			case token.NEQ:
				if k.Int64() == 0 {
					n = 1
				}
			}
			if n > best {
				best = n
			}
		case *ssa.Call:
			name := calleeFullName(x)
			if truth && (name == "strings.HasPrefix" || name == "bytes.HasPrefix" || name == "strings.HasSuffix") && len(x.Call.Args) == 2 && same(x.Call.Args[0]) {
				if k, ok := x.Call.Args[1].(*ssa.Const); ok && k.Value != nil && k.Value.Kind() == constant.String {
					if n := int64(len(constant.StringVal(k.Value))); n > best {
						best = n
					}
				}
			}
			if truth && strings.HasSuffix(name, "regexp.Regexp).MatchString") && len(x.Call.Args) == 2 && same(x.Call.Args[1]) {
				n := int64(0)
				if d := c.describe(c.evaluator(), x.Call.Args[0], 0); d != nil && d.Kind == "call" && len(d.Args) == 1 {
					if pat, ok := d.Args[0].Str(); ok {
						if m := regexpMinLen(pat); m > 0 {
							n = m
						}
					}
				}
				if n > best {
					best = n
				}
			}
		}
	}
	return best
}

// sameFieldLoad: two loads of the same field of the same base (no intervening check of stores: used for guards only).
func sameFieldLoad(a, b ssa.Value) bool {
	la, ok1 := a.(*ssa.UnOp)
	lb, ok2 := b.(*ssa.UnOp)
	if !ok1 || !ok2 || la.Op != token.MUL || lb.Op != token.MUL {
		return false
	}
	fa, ok1 := la.X.(*ssa.FieldAddr)
	fb, ok2 := lb.X.(*ssa.FieldAddr)
	if ok1 && ok2 {
		return fa.X == fb.X && fa.Field == fb.Field
	}
	ia, ok1 := la.X.(*ssa.IndexAddr)
	ib, ok2 := lb.X.(*ssa.IndexAddr)
	if ok1 && ok2 && ia.X == ib.X {
		ka, okA := ia.Index.(*ssa.Const)
		kb, okB := ib.Index.(*ssa.Const)
		return ia.Index == ib.Index || okA && okB && ka.Value != nil && kb.Value != nil && ka.Int64() == kb.Int64()
	}
	return la.X == lb.X
}

func ruleConstSlice(c *Ctx, r *Rep) {
	for _, fn := range c.Funcs {
		n := 0
		for _, b := range fn.Blocks {
			for _, ins := range b.Instrs {
				if cv, isConv := ins.(*ssa.SliceToArrayPointer); isConv {
					// a conversion of a slice into an array (or a pointer to one) fails at run time when the slice is shorter
					pt, _ := cv.Type().Underlying().(*types.Pointer)
					if pt == nil {
						continue
					}
					arr, _ := pt.Elem().Underlying().(*types.Array)
					if arr == nil || arr.Len() == 0 {
						continue
					}
					have, known := constLen(cv.X)
					if !known {
						have = lenLowerBound(c, cv.X, b)
					}
					n++
					r.Check(have >= arr.Len(), sprintf("to-array|%s#%d", c.FuncKey(fn), n), c.Pos(cv.Pos()), sprintf("a slice turned into an array of %d: a test on the way that establishes a length of at least %d", arr.Len(), arr.Len()), sprintf("established: at least %d", have))
					continue
				}
				sl, ok := ins.(*ssa.Slice)
				if !ok {
					continue
				}
				switch sl.X.Type().Underlying().(type) {
				case *types.Slice, *types.Basic:
				default:
					continue // arrays: the compiler checks constants
				}
				need := int64(0)
				for _, bound := range []ssa.Value{sl.Low, sl.High} {
					if k, ok := bound.(*ssa.Const); ok && bound != nil && k.Value != nil && k.Int64() > need {
						need = k.Int64()
					}
				}
				if need == 0 {
					continue
				}
				if _, known := constLen(sl.X); known {
					continue // LINT-CONSTIDX
				}
				n++
				have := lenLowerBound(c, sl.X, b)
				r.Check(have >= need, sprintf("cut|%s#%d", c.FuncKey(fn), n), c.Pos(sl.Pos()), sprintf("a test on the way that establishes a length of at least %d", need), sprintf("established: at least %d", have))
			}
		}
	}
}

// ---------------------------------------------------------------------------

func init() {
	register(&Rule{Name: "IMPORT-PARTS", Floor: 3, Run: ruleImportParts,
		Doc: "what the PEM reader found is what the backend keeps: the certificate and the private key of the file are each stored into the like-named part of the artifact under no other condition than their own presence (a key is never dropped because something else is in the file), and the request is stored at least when no key is there"})
}

func ruleImportParts(c *Ctx, r *Rep) {
	pv := c.newProv()
	seen := map[string]bool{}
	var host *ssa.Function
	for _, fn := range c.Funcs {
		for _, fs := range storesIntoType(c, fn, "db.BuildArtifact") {
			if fs.whole || fs.field == "" || strings.Contains(fs.field, ".") {
				continue
			}
			o := pv.Origins(fs.val())
			fromPem := ""
			for _, x := range o {
				if i := strings.Index(x, "ReadPem("); i >= 0 && strings.Contains(x[i:], ")#0.") {
					fromPem = x[strings.LastIndex(x, ")#0.")+4:]
				}
			}
			if fromPem == "" {
				continue
			}
			host = fn
			key := fs.field
			seen[key] = true
			r.Check(fromPem == fs.field, "like-named|"+key, c.Pos(fs.st.Pos()), "artifact."+fs.field+" <- file."+fs.field, "file."+fromPem)
			// the conditions the store is under
			var foreign []string
			for _, g := range guardsOf(fs.st.Block()) {
				x, isNil, ok := nilTestOf(g.Cond, g.Truth)
				if !ok {
					continue
				}
				xo := pv.Origins(x)
				part := ""
				for _, y := range xo {
					if j := strings.LastIndex(y, ")#0."); j >= 0 && strings.Contains(y, "ReadPem(") {
						part = y[j+4:]
					}
				}
				if part == "" {
					continue
				}
				switch {
				case part == fs.field && !isNil:
					// its own presence
				case fs.field == "Request" && part == "PrivateKey" && isNil:
					// the request stands in when there is no key
				default:
					how := "is present"
					if isNil {
						how = "is absent"
					}
					foreign = append(foreign, "only when "+part+" "+how)
				}
			}
			if fs.field != "Request" || len(foreign) > 0 {
				r.Check(len(foreign) == 0, "kept-whenever-present|"+key, c.Pos(fs.st.Pos()), "stored whenever the file has it", strings.Join(foreign, "; "))
			}
		}
	}
	if host == nil {
		r.Undecided("anchor:pem-import", "", "no function stores parts of a ReadPem result into a BuildArtifact")
		return
	}
	for _, f := range []string{"Certificate", "PrivateKey", "Request"} {
		if !seen[f] {
			r.Bad("like-named|"+f, c.FnPos(host), "artifact."+f+" <- file."+f, "never stored")
		}
	}
}

// minLenOf: a lower bound on len(v) in block b, from the guards on the way and from how v was made.
func minLenOf(c *Ctx, v ssa.Value, b *ssa.BasicBlock, depth int) int64 {
	if depth > 5 {
		return 0
	}
	best := lenLowerBound(c, v, b)
	if n, ok := constLen(v); ok && n > best {
		best = n
	}
	switch x := v.(type) {
	case *ssa.Slice:
		lo := int64(0)
		if x.Low != nil {
			k, ok := x.Low.(*ssa.Const)
			if !ok || k.Value == nil {
				return best
			}
			lo = k.Int64()
		}
		if x.High == nil {
			if n := minLenOf(c, x.X, b, depth+1) - lo; n > best {
				best = n
			}
		}
	case *ssa.Extract:
		if call, ok := x.Tuple.(*ssa.Call); ok && x.Index == 0 {
			switch calleeFullName(call) {
			case "encoding/hex.DecodeString":
				// a successful decode has half the (even) length of its input
				if n := (minLenOf(c, call.Call.Args[0], call.Block(), depth+1) + 1) / 2; n > best {
					best = n
				}
			}
		}
	case *ssa.Convert:
		if n := minLenOf(c, x.X, b, depth+1); n > best {
			best = n
		}
	case *ssa.Call:
		switch calleeFullName(x) {
		case "strings.Split", "strings.SplitN", "strings.SplitAfter":
			// splitting at a non-empty separator yields at least one piece (the text itself)
			if len(x.Call.Args) >= 2 {
				if k, ok := x.Call.Args[1].(*ssa.Const); ok && k.Value != nil && k.Value.Kind() == constant.String && constant.StringVal(k.Value) != "" && best < 1 {
					best = 1
				}
			}
		}
	}
	return best
}

// regexpMinLen: the length of the shortest string a constant pattern matches (-1: unknown).
func regexpMinLen(pattern string) int64 {
	re, err := syntax.Parse(pattern, syntax.Perl)
	if err != nil {
		return -1
	}
	var min func(r *syntax.Regexp) int64
	min = func(r *syntax.Regexp) int64 {
		switch r.Op {
		case syntax.OpLiteral:
			return int64(len(r.Rune))
		case syntax.OpCharClass, syntax.OpAnyChar, syntax.OpAnyCharNotNL:
			return 1
		case syntax.OpCapture:
			return min(r.Sub[0])
		case syntax.OpConcat:
			n := int64(0)
			for _, s := range r.Sub {
				n += min(s)
			}
			return n
		case syntax.OpAlternate:
			n := int64(1 << 30)
			for _, s := range r.Sub {
				if m := min(s); m < n {
					n = m
				}
			}
			return n
		case syntax.OpPlus:
			return min(r.Sub[0])
		case syntax.OpRepeat:
			return int64(r.Min) * min(r.Sub[0])
		}
		return 0 // star, quest, anchors, empty
	}
	return min(re)
}

// fromLibraryBytes: v is the []byte / string result of a call into a library (decoded or read data).
func fromLibraryBytes(c *Ctx, v ssa.Value) bool {
	var call *ssa.Call
	switch x := v.(type) {
	case *ssa.Extract:
		call, _ = x.Tuple.(*ssa.Call)
	case *ssa.Call:
		call = x
	}
	if call == nil {
		return false
	}
	if f := call.Call.StaticCallee(); f != nil && c.InModule(f) {
		return false
	}
	if _, isBuiltin := call.Call.Value.(*ssa.Builtin); isBuiltin {
		return false
	}
	switch t := v.Type().Underlying().(type) {
	case *types.Slice:
		// bytes of a decoding or a file; the pieces a text was split into (strings.Split, Fields, regexp matches)
		b, ok := t.Elem().Underlying().(*types.Basic)
		if ok && b.Kind() == types.String {
			// how many pieces there are depends on the text (the submatches of a regular expression are as many as the
			// expression has groups: TAB-DATE looks at those)
			name := calleeFullName(call)
			return strings.HasPrefix(name, "strings.Split") || strings.HasPrefix(name, "strings.Fields")
		}
		return ok && b.Kind() == types.Byte
	}
	return false
}

func init() {
	register(&Rule{Name: "LINT-OPTEMPTY", Floor: 1, Run: ruleOptEmpty, Fixture: "fixture.optionalGetsEmptyList",
		Doc: "a list inside an ASN.1 structure marked optional stays nil when nothing is configured: encoding/asn1 leaves an optional value out only when it equals its zero value, and a made, empty list does not"})
}

// ruleOptEmpty: for every list-typed field that an `asn1:"optional"` tag (its own, without omitempty, or that of a
// struct-typed field holding it) makes presence-sensitive, no store puts an unconditionally made list there.
func ruleOptEmpty(c *Ctx, r *Rep) {
	type fkey struct {
		owner *types.Named
		idx   int
	}
	sensitive := map[fkey]string{}
	var markStruct func(nt *types.Named, why string, depth int)
	markStruct = func(nt *types.Named, why string, depth int) {
		st, ok := nt.Underlying().(*types.Struct)
		if !ok || depth > 4 {
			return
		}
		for i := 0; i < st.NumFields(); i++ {
			ft := st.Field(i).Type()
			if _, isSlice := ft.Underlying().(*types.Slice); isSlice {
				tag := reflect.StructTag(st.Tag(i)).Get("asn1")
				if !strings.Contains(tag, "omitempty") {
					if _, have := sensitive[fkey{nt, i}]; !have {
						sensitive[fkey{nt, i}] = why
					}
				}
			}
			if inner, ok := ft.(*types.Named); ok && c.IsModObj(inner.Obj()) {
				markStruct(inner, why, depth+1)
			}
		}
	}
	for _, p := range c.Pkgs {
		sc := p.Types.Scope()
		for _, name := range sc.Names() {
			tn, ok := sc.Lookup(name).(*types.TypeName)
			if !ok {
				continue
			}
			nt, ok := tn.Type().(*types.Named)
			if !ok {
				continue
			}
			st, ok := nt.Underlying().(*types.Struct)
			if !ok {
				continue
			}
			for i := 0; i < st.NumFields(); i++ {
				tag := reflect.StructTag(st.Tag(i)).Get("asn1")
				if !strings.Contains(tag, "optional") {
					continue
				}
				why := nt.Obj().Name() + "." + st.Field(i).Name() + " is optional"
				ft := st.Field(i).Type()
				if _, isSlice := ft.Underlying().(*types.Slice); isSlice && !strings.Contains(tag, "omitempty") {
					sensitive[fkey{nt, i}] = why
				}
				if inner, ok := ft.(*types.Named); ok && c.IsModObj(inner.Obj()) {
					markStruct(inner, why, 0)
				}
			}
		}
	}
	// a value that is a freshly made list on some way in, with nothing on that way saying the source is not empty
	var madeUnguarded func(v ssa.Value, depth int) (bool, string)
	madeUnguarded = func(v ssa.Value, depth int) (bool, string) {
		if depth > 6 {
			return false, ""
		}
		guarded := func(b *ssa.BasicBlock) bool {
			for _, g := range guardsOf(b) {
				if _, empty, ok := emptyTestOf(g.Cond, g.Truth); ok && !empty {
					return true
				}
				if _, isNil, ok := nilTestOf(g.Cond, g.Truth); ok && !isNil {
					return true
				}
			}
			return false
		}
		switch x := v.(type) {
		case *ssa.MakeSlice:
			if k, ok := x.Len.(*ssa.Const); ok && k.Value != nil && k.Int64() > 0 {
				return false, ""
			}
			if !guarded(x.Block()) {
				return true, "make(" + x.Type().String() + ", …)"
			}
		case *ssa.Slice:
			if al, ok := x.X.(*ssa.Alloc); ok {
				if pt, ok := al.Type().Underlying().(*types.Pointer); ok {
					if arr, ok := pt.Elem().Underlying().(*types.Array); ok && arr.Len() == 0 && !guarded(x.Block()) {
						return true, "an empty list literal"
					}
				}
			}
			if _, ok := x.X.Type().Underlying().(*types.Slice); ok {
				return madeUnguarded(x.X, depth+1)
			}
		case *ssa.Phi:
			for _, e := range x.Edges {
				if bad, what := madeUnguarded(e, depth+1); bad {
					return true, what
				}
			}
		case *ssa.Call:
			if b, ok := x.Call.Value.(*ssa.Builtin); ok && b.Name() == "append" {
				return madeUnguarded(x.Call.Args[0], depth+1)
			}
			// a loop-free helper that returns the list
			if f := x.Call.StaticCallee(); f != nil && f.Object() != nil && c.IsModObj(f.Object()) && f.Signature.Results().Len() == 1 {
				for _, ret := range returnsOf(f) {
					if res := retResults(ret); len(res) == 1 {
						if bad, what := madeUnguarded(res[0], depth+1); bad {
							return true, what + " returned by " + f.Name()
						}
					}
				}
			}
		}
		return false, ""
	}
	n := map[string]int{}
	for _, fn := range c.Funcs {
		for _, b := range fn.Blocks {
			for _, ins := range b.Instrs {
				st, ok := ins.(*ssa.Store)
				if !ok {
					continue
				}
				fa, ok := st.Addr.(*ssa.FieldAddr)
				if !ok {
					continue
				}
				pt, ok := fa.X.Type().Underlying().(*types.Pointer)
				if !ok {
					continue
				}
				nt, ok := pt.Elem().(*types.Named)
				if !ok {
					continue
				}
				why, ok := sensitive[fkey{nt, fa.Field}]
				if !ok {
					continue
				}
				key := nt.Obj().Name() + "." + fieldOfAddr(fa).Name() + "|" + c.FuncKey(fn)
				n[key]++
				bad, what := madeUnguarded(st.Val, 0)
				r.Check(!bad, sprintf("stays-absent|%s#%d", key, n[key]), c.Pos(st.Pos()), "the list stored is nil when nothing is configured ("+why+")", what)
			}
		}
	}
}

func init() {
	register(&Rule{Name: "LINT-LOOPINV", Floor: 20, Run: ruleLoopInvariantCond, Fixture: "fixture.loopConditionNeverChanges",
		Doc: "a loop that is left through its condition changes something the condition reads: a loop whose condition is computed only from values that nothing inside the loop writes either never runs or never ends (opening, planning and signing succeed or return an error - they do not hang on a file's content)"})
}

// ruleLoopInvariantCond: for every loop whose header ends in a test, the test reads at least one thing that the loop
// can change - a loop-carried variable, the result of a call or of a range step made inside the loop, or memory that
// the loop stores to (or that escapes to a call inside the loop).
func ruleLoopInvariantCond(c *Ctx, r *Rep) {
	for _, fn := range c.Funcs {
		loops := naturalLoops(fn)
		var heads []*ssa.BasicBlock
		for h := range loops {
			heads = append(heads, h)
		}
		sort.Slice(heads, func(i, j int) bool { return heads[i].Index < heads[j].Index })
		n := 0
		for _, h := range heads {
			body := loops[h]
			iff, ok := lastInstr(h).(*ssa.If)
			if !ok {
				continue // `for { … }`: left by break or return only
			}
			if body[h.Succs[0]] == body[h.Succs[1]] {
				continue // the test does not decide whether the loop goes on
			}
			// what the loop writes
			var stores []*ssa.Store
			callsInside := false
			for b := range body {
				for _, ins := range b.Instrs {
					switch x := ins.(type) {
					case *ssa.Store:
						stores = append(stores, x)
					case *ssa.MapUpdate:
						callsInside = true
					case ssa.CallInstruction:
						if _, isB := x.Common().Value.(*ssa.Builtin); !isB {
							callsInside = true
						}
					}
				}
			}
			seen := map[ssa.Value]bool{}
			var varies func(v ssa.Value, depth int) bool
			varies = func(v ssa.Value, depth int) bool {
				if v == nil || seen[v] || depth > 12 {
					return false
				}
				seen[v] = true
				ins, isIns := v.(ssa.Instruction)
				inside := isIns && ins.Block() != nil && body[ins.Block()]
				switch x := v.(type) {
				case *ssa.Const, *ssa.Parameter, *ssa.Global, *ssa.FreeVar, *ssa.Function, *ssa.Builtin:
					return false
				case *ssa.Phi:
					return inside // carried around the loop (or joined inside it)
				case *ssa.Next, *ssa.Range, *ssa.Select, *ssa.TypeAssert, *ssa.Lookup:
					return inside
				case *ssa.Extract:
					return varies(x.Tuple, depth+1)
				case *ssa.Call:
					if b, isB := x.Call.Value.(*ssa.Builtin); isB && (b.Name() == "len" || b.Name() == "cap") {
						return varies(x.Call.Args[0], depth+1)
					}
					return inside // a call made in the loop may answer differently each time
				case *ssa.UnOp:
					if x.Op != token.MUL {
						return varies(x.X, depth+1)
					}
					if !inside {
						return false // read once before the loop
					}
					// a read of memory: does the loop write there?
					for _, st := range stores {
						if st.Addr == x.X {
							return true
						}
						fa, ok1 := st.Addr.(*ssa.FieldAddr)
						fb, ok2 := x.X.(*ssa.FieldAddr)
						if ok1 && ok2 && fa.Field == fb.Field && types.Identical(fa.X.Type(), fb.X.Type()) {
							return true
						}
						ia, ok1 := st.Addr.(*ssa.IndexAddr)
						ib, ok2 := x.X.(*ssa.IndexAddr)
						if ok1 && ok2 && types.Identical(ia.X.Type(), ib.X.Type()) {
							return true
						}
					}
					if callsInside {
						// memory reachable by a call made in the loop: anything but a local that never leaves the function
						if al, isAl := x.X.(*ssa.Alloc); isAl && !al.Heap {
							return varies(x.X, depth+1)
						}
						return true
					}
					return varies(x.X, depth+1)
				case *ssa.BinOp:
					return varies(x.X, depth+1) || varies(x.Y, depth+1)
				case *ssa.FieldAddr:
					return varies(x.X, depth+1)
				case *ssa.IndexAddr:
					return varies(x.X, depth+1) || varies(x.Index, depth+1)
				case *ssa.Index:
					return varies(x.X, depth+1) || varies(x.Index, depth+1)
				case *ssa.Field:
					return varies(x.X, depth+1)
				case *ssa.Slice:
					return varies(x.X, depth+1) || varies(x.Low, depth+1) || varies(x.High, depth+1)
				case *ssa.Convert:
					return varies(x.X, depth+1)
				case *ssa.ChangeType:
					return varies(x.X, depth+1)
				case *ssa.ChangeInterface:
					return varies(x.X, depth+1)
				case *ssa.MakeInterface:
					return varies(x.X, depth+1)
				case *ssa.Alloc:
					return false
				}
				return inside // anything else computed inside the loop: assume it can change
			}
			n++
			ok = varies(iff.Cond, 0)
			pos := iff.Cond.Pos()
			if pos == token.NoPos {
				for _, ins := range h.Instrs {
					if ins.Pos() != token.NoPos {
						pos = ins.Pos()
						break
					}
				}
			}
			r.Check(ok, sprintf("condition-can-change|%s#%d", c.FuncKey(fn), n), c.Pos(pos), "the loop's condition reads something the loop changes", sprintf("%v", ok))
		}
	}
}

func init() {
	register(&Rule{Name: "LINT-NILSIG", Floor: 2, Run: ruleNilSignificant, Fixture: "fixture.copyLosesNilness",
		Doc: "where module code tells a nil list from an empty one by a nil test of a struct field (a profile without an attribute list accepts every subject, one with an empty list does not), no copy of that field is made by an idiom that merges the two: append([]T(nil), src...) turns empty into nil, an unguarded make([]T, len(src)) turns nil into empty"})
}

// ruleNilSignificant: the fields whose nil-ness some branch of the module reads are collected from the nil tests; every
// store into such a field is looked at.
func ruleNilSignificant(c *Ctx, r *Rep) {
	type fkey struct {
		owner *types.Named
		idx   int
	}
	fieldOfLoad := func(v ssa.Value) (fkey, bool) {
		ld, ok := v.(*ssa.UnOp)
		if !ok || ld.Op != token.MUL {
			return fkey{}, false
		}
		fa, ok := ld.X.(*ssa.FieldAddr)
		if !ok {
			return fkey{}, false
		}
		pt, ok := fa.X.Type().Underlying().(*types.Pointer)
		if !ok {
			return fkey{}, false
		}
		nt, ok := pt.Elem().(*types.Named)
		if !ok || !c.IsModObj(nt.Obj()) {
			return fkey{}, false
		}
		return fkey{nt, fa.Field}, true
	}
	sig := map[fkey]string{}
	for _, fn := range c.Funcs {
		for _, b := range fn.Blocks {
			iff, ok := lastInstr(b).(*ssa.If)
			if !ok {
				continue
			}
			x, _, ok := nilTestOf(iff.Cond, true)
			if !ok {
				continue
			}
			if _, isSlice := x.Type().Underlying().(*types.Slice); !isSlice {
				continue
			}
			if k, ok := fieldOfLoad(x); ok {
				if _, have := sig[k]; !have {
					sig[k] = c.Pos(iff.Cond.Pos())
				}
			}
		}
	}
	n := map[string]int{}
	for _, fn := range c.Funcs {
		for _, b := range fn.Blocks {
			for _, ins := range b.Instrs {
				st, ok := ins.(*ssa.Store)
				if !ok {
					continue
				}
				fa, ok := st.Addr.(*ssa.FieldAddr)
				if !ok {
					continue
				}
				pt, ok := fa.X.Type().Underlying().(*types.Pointer)
				if !ok {
					continue
				}
				nt, ok := pt.Elem().(*types.Named)
				if !ok {
					continue
				}
				where, ok := sig[fkey{nt, fa.Field}]
				if !ok {
					continue
				}
				key := nt.Obj().Name() + "." + fieldOfAddr(fa).Name() + "|" + c.FuncKey(fn)
				n[key]++
				bad := ""
				guardedByNilTest := func(blk *ssa.BasicBlock) bool {
					for _, g := range guardsOf(blk) {
						if x, _, ok := nilTestOf(g.Cond, g.Truth); ok {
							if _, isSlice := x.Type().Underlying().(*types.Slice); isSlice {
								return true
							}
						}
					}
					return false
				}
				switch v := st.Val.(type) {
				case *ssa.Call:
					if bi, isB := v.Call.Value.(*ssa.Builtin); isB && bi.Name() == "append" {
						if k, isK := v.Call.Args[0].(*ssa.Const); isK && k.Value == nil && !guardedByNilTest(v.Block()) {
							bad = "append(nil, src...) is nil when src is empty"
						}
					}
				case *ssa.MakeSlice:
					if _, _, ok := lenPlus(v.Len); ok && !guardedByNilTest(v.Block()) {
						bad = "make(…, len(src)) is not nil when src is"
					}
				}
				r.Check(bad == "", sprintf("nilness-kept|%s#%d", key, n[key]), c.Pos(st.Pos()), "the value stored keeps nil and empty apart (the field's nil-ness is tested at "+where+")", bad)
			}
		}
	}
}

func init() {
	register(&Rule{Name: "LINT-CLIARGS", Floor: 0, Run: ruleCliArgs,
		Doc: "a command's Run function reads args[i] only for i below the number of arguments its Args validator (cobra.ExactArgs / MinimumNArgs / RangeArgs) guarantees: an index beyond it panics on every invocation with the advertised number of arguments"})
}

func ruleCliArgs(c *Ctx, r *Rep) {
	for _, fn := range c.Funcs {
		// the command literals built in fn: Run and Args stored into the same cobra.Command
		type cmd struct {
			run *ssa.Function
			min int64
			has bool
		}
		cmds := map[ssa.Value]*cmd{}
		for _, b := range fn.Blocks {
			for _, ins := range b.Instrs {
				st, ok := ins.(*ssa.Store)
				if !ok {
					continue
				}
				fa, ok := st.Addr.(*ssa.FieldAddr)
				if !ok || !strings.HasSuffix(types.TypeString(fa.X.Type(), nil), "cobra.Command") {
					continue
				}
				cm := cmds[fa.X]
				if cm == nil {
					cm = &cmd{}
					cmds[fa.X] = cm
				}
				switch fieldOfAddr(fa).Name() {
				case "Run", "RunE":
					switch v := st.Val.(type) {
					case *ssa.MakeClosure:
						cm.run, _ = v.Fn.(*ssa.Function)
					case *ssa.Function:
						cm.run = v
					}
				case "Args":
					if call, ok := st.Val.(*ssa.Call); ok && len(call.Call.Args) >= 1 {
						name := calleeFullName(call)
						if k, isK := call.Call.Args[0].(*ssa.Const); isK && k.Value != nil &&
							(strings.HasSuffix(name, "cobra.ExactArgs") || strings.HasSuffix(name, "cobra.MinimumNArgs") || strings.HasSuffix(name, "cobra.RangeArgs")) {
							cm.min, cm.has = k.Int64(), true
						}
					}
				}
			}
		}
		for _, cm := range cmds {
			if cm.run == nil || len(cm.run.Params) < 2 {
				continue
			}
			// the argument list in the Run function and in the module functions it hands the whole list to
			type site struct {
				fn   *ssa.Function
				args *ssa.Parameter
			}
			work := []site{{cm.run, cm.run.Params[len(cm.run.Params)-1]}}
			seenFn := map[*ssa.Function]bool{cm.run: true}
			for i := 0; i < len(work) && i < 8; i++ {
				for _, ci := range callsIn(work[i].fn) {
					callee := ci.Common().StaticCallee()
					if callee == nil || callee.Blocks == nil || !c.InModule(callee) || seenFn[callee] {
						continue
					}
					for j, a := range ci.Common().Args {
						if a == ssa.Value(work[i].args) && j < len(callee.Params) {
							seenFn[callee] = true
							work = append(work, site{callee, callee.Params[j]})
						}
					}
				}
			}
			n := 0
			for _, w := range work {
				args := w.args
				for _, b := range w.fn.Blocks {
					for _, ins := range b.Instrs {
						ia, ok := ins.(*ssa.IndexAddr)
						if !ok || ia.X != ssa.Value(args) {
							continue
						}
						k, isK := ia.Index.(*ssa.Const)
						if !isK || k.Value == nil {
							continue
						}
						n++
						// a length test on the way also does
						ok2 := cm.has && k.Int64() < cm.min
						if !ok2 {
							if lb := lenLowerBound(c, args, b); k.Int64() < lb {
								ok2 = true
							}
						}
						r.Check(ok2, sprintf("args-index|%s#%d", c.FuncKey(cm.run), n), c.Pos(ia.Pos()), sprintf("args[%d] lies below the argument count the command's validator guarantees", k.Int64()), sprintf("guaranteed: %d (validator found: %v)", cm.min, cm.has))
					}
				}
			}
		}
	}
}

func init() {
	register(&Rule{Name: "NAMED-BITS", Floor: 2, Run: ruleNamedBits,
		Doc: "a named-bit list (keyUsage) is encoded as DER prescribes: where the BIT STRING's length is K minus the trailing zero bits of the octets' last byte, K is 8 times the number of octets, and when no bit is set (length 0) the octets are cut to nothing on that very branch"})
}

// ruleNamedBits: BitLength = K - TrailingZeros8(buf[0]) with buf of constant length n: K == 8n; Bytes is buf, or buf[:0]
// exactly where the length is known to be 0.
func ruleNamedBits(c *Ctx, r *Rep) {
	bufLen := func(v ssa.Value) (ssa.Value, int64, bool) {
		switch x := v.(type) {
		case *ssa.MakeSlice:
			if k, ok := x.Len.(*ssa.Const); ok && k.Value != nil {
				return x, k.Int64(), true
			}
		case *ssa.Slice:
			if al, ok := x.X.(*ssa.Alloc); ok {
				if pt, ok := al.Type().Underlying().(*types.Pointer); ok {
					if arr, ok := pt.Elem().Underlying().(*types.Array); ok {
						n := arr.Len()
						if k, ok := x.High.(*ssa.Const); ok && k.Value != nil {
							n = k.Int64()
						}
						return x, n, true
					}
				}
			}
		}
		return nil, 0, false
	}
	for _, fn := range c.Funcs {
		for _, ci := range callsIn(fn) {
			if !strings.HasPrefix(calleeFullName(ci), "math/bits.TrailingZeros") {
				continue
			}
			tz := ci.Value()
			if tz == nil {
				continue
			}
			fk := c.FuncKey(fn)
			for _, ref := range *tz.Referrers() {
				sub, ok := ref.(*ssa.BinOp)
				if !ok || sub.Op != token.SUB || sub.Y != ssa.Value(tz) {
					continue
				}
				K, isK := sub.X.(*ssa.Const)
				if !isK || K.Value == nil {
					r.Undecided("shape:width|"+fk, c.Pos(sub.Pos()), "the length is not a constant minus the trailing zeros")
					continue
				}
				// the byte looked at: buf[const], or the value a one-element list is made of
				var buf ssa.Value
				var n int64
				if ld, ok := ci.Common().Args[0].(*ssa.UnOp); ok && ld.Op == token.MUL {
					if ia, ok := ld.X.(*ssa.IndexAddr); ok {
						if b, l, ok := bufLen(ia.X); ok {
							buf, n = b, l
						}
					}
				}
				if buf == nil {
					arg := ci.Common().Args[0]
					for _, ref := range *arg.Referrers() {
						st, ok := ref.(*ssa.Store)
						if !ok || st.Val != arg {
							continue
						}
						ia, ok := st.Addr.(*ssa.IndexAddr)
						if !ok {
							continue
						}
						// the list over the array this element belongs to
						if al, ok := ia.X.(*ssa.Alloc); ok {
							for _, r2 := range *al.Referrers() {
								if sl, ok := r2.(*ssa.Slice); ok {
									if b, l, ok := bufLen(sl); ok {
										buf, n = b, l
									}
								}
							}
						}
					}
				}
				if buf == nil {
					r.Undecided("shape:octets|"+fk, c.Pos(ci.Pos()), "the byte whose trailing zeros are counted is not an element of a list of constant length")
					continue
				}
				r.Check(K.Int64() == 8*n, "width|"+fk, c.Pos(sub.Pos()), sprintf("length = %d - trailing zeros for %d octet(s)", 8*n, n), sprintf("%d - trailing zeros", K.Int64()))
				// where the length goes: the BIT STRING built from it
				for _, ref2 := range *sub.Referrers() {
					st, ok := ref2.(*ssa.Store)
					if !ok {
						continue
					}
					fa, ok := st.Addr.(*ssa.FieldAddr)
					if !ok || fieldOfAddr(fa).Name() != "BitLength" {
						continue
					}
					var bytesVal ssa.Value
					for _, ref3 := range *fa.X.Referrers() {
						if fb, ok := ref3.(*ssa.FieldAddr); ok && fieldOfAddr(fb).Name() == "Bytes" {
							for _, ref4 := range *fb.Referrers() {
								if sb, ok := ref4.(*ssa.Store); ok && sb.Addr == ssa.Value(fb) {
									bytesVal = sb.Val
								}
							}
						}
					}
					if bytesVal == nil {
						r.Undecided("shape:bytes|"+fk, c.Pos(st.Pos()), "no store into Bytes beside the length")
						continue
					}
					// the ways into Bytes
					type in struct {
						v    ssa.Value
						from *ssa.BasicBlock
						to   *ssa.BasicBlock
					}
					var ins []in
					if phi, ok := bytesVal.(*ssa.Phi); ok {
						for _, e := range flattenPhi(phi) {
							ins = append(ins, in{e.val, e.from, e.to})
						}
					} else {
						ins = []in{{bytesVal, nil, nil}}
					}
					cutWhenZero, wholeOtherwise, other := false, false, ""
					for _, e := range ins {
						var gs []guard
						if e.from != nil {
							gs = append(guardsOf(e.from), edgeGuard(e.from, e.to)...)
						}
						zero, nonzero := false, false
						for _, g := range gs {
							if bin, ok := g.Cond.(*ssa.BinOp); ok && bin.X == ssa.Value(sub) {
								if k, ok := bin.Y.(*ssa.Const); ok && k.Value != nil && k.Int64() == 0 {
									isZero := (bin.Op == token.EQL && g.Truth) || (bin.Op == token.NEQ && !g.Truth) || (bin.Op == token.GTR && !g.Truth)
									if isZero {
										zero = true
									} else {
										nonzero = true
									}
								}
							}
						}
						switch x := e.v.(type) {
						case *ssa.Slice:
							if x == buf {
								if !zero {
									wholeOtherwise = true
								}
								continue
							}
							if x.X == buf {
								hi, isHi := x.High.(*ssa.Const)
								if isHi && hi.Value != nil && hi.Int64() == 0 && x.Low == nil && zero {
									cutWhenZero = true
									continue
								}
								other = "the octets are cut to " + x.String() + " (zero length known: " + sprintf("%v", zero) + ")"
								continue
							}
							other = "another list"
						default:
							if e.v == buf {
								if !zero {
									wholeOtherwise = true
								}
								continue
							}
							other = "another list"
						}
						_ = nonzero
					}
					r.Check(cutWhenZero && wholeOtherwise && other == "", "empty-when-no-bits|"+fk, c.Pos(st.Pos()), "Bytes is the octet list, cut to nothing exactly where the length is known to be 0", sprintf("cut when zero: %v, whole otherwise: %v %s", cutWhenZero, wholeOtherwise, other))
				}
			}
		}
	}
}

func init() {
	register(&Rule{Name: "LINT-BUFLOOP", Floor: 1, Run: ruleBufLoop, Fixture: "fixture.bufferNotResetInLoop",
		Doc: "a bytes.Buffer made before a loop, written and read inside it, is emptied inside it (Reset): otherwise the second element's encoding starts with the first's. Also: nothing is written from a value that is the constant nil (the statement that filled it is gone)"})
}

func ruleBufLoop(c *Ctx, r *Rep) {
	isBuf := func(t types.Type) bool {
		return typeIs(t, "bytes", "Buffer")
	}
	for _, fn := range c.Funcs {
		loops := naturalLoops(fn)
		// buffers: allocations of bytes.Buffer (new(bytes.Buffer), a local, &bytes.Buffer{})
		n := 0
		for _, b := range fn.Blocks {
			for _, ins := range b.Instrs {
				al, ok := ins.(*ssa.Alloc)
				if !ok || !isBuf(al.Type()) {
					continue
				}
				for h, body := range loops {
					if body[al.Block()] {
						continue // made anew each round
					}
					written, read, reset := false, false, false
					var at token.Pos
					for _, ref := range *al.Referrers() {
						ci, ok := ref.(ssa.CallInstruction)
						if !ok || !body[ref.Block()] {
							continue
						}
						name := calleeFullName(ci)
						isRecv := len(ci.Common().Args) > 0 && ci.Common().Args[0] == ssa.Value(al)
						switch {
						case isRecv && strings.HasPrefix(name, "(*bytes.Buffer).Write"):
							written = true
						case isRecv && (name == "(*bytes.Buffer).Reset" || name == "(*bytes.Buffer).Truncate"):
							reset = true
						case isRecv && (name == "(*bytes.Buffer).Bytes" || name == "(*bytes.Buffer).String" || name == "(*bytes.Buffer).Len"):
							read = true
							at = ci.Pos()
						}
					}
					if !written || !read {
						continue
					}
					n++
					_ = h
					r.Check(reset, sprintf("reset-in-loop|%s#%d", c.FuncKey(fn), n), c.Pos(at), "a buffer made before the loop and written and read inside it is reset inside it", sprintf("reset: %v", reset))
				}
			}
		}
		// Bytes() hands out the buffer's own memory: what it returned is not used any more once the buffer has been reset
		// or written again (two encodings taken from one buffer and then compared are the same bytes)
		q := 0
		for _, ci := range callsIn(fn) {
			if calleeFullName(ci) != "(*bytes.Buffer).Bytes" {
				continue
			}
			v := ci.Value()
			if v == nil {
				continue
			}
			buf := ci.Common().Args[0]
			var modifiers []ssa.CallInstruction
			for _, cj := range callsIn(fn) {
				name := calleeFullName(cj)
				if len(cj.Common().Args) > 0 && cj.Common().Args[0] == buf && cj != ci &&
					(name == "(*bytes.Buffer).Reset" || name == "(*bytes.Buffer).Truncate" || strings.HasPrefix(name, "(*bytes.Buffer).Write")) && reachableFromInstr(ci, cj) {
					modifiers = append(modifiers, cj)
				}
				// the buffer handed to an encoder as a writer
				if cj != ci && reachableFromInstr(ci, cj) {
					for _, a := range cj.Common().Args[min1(len(cj.Common().Args)):] {
						if mi, ok := a.(*ssa.MakeInterface); ok && mi.X == buf {
							modifiers = append(modifiers, cj)
						}
					}
				}
			}
			if len(modifiers) == 0 {
				continue
			}
			q++
			stale := ""
			for _, ref := range *v.Referrers() {
				for _, m := range modifiers {
					if ref != ssa.Instruction(m) && reachesAvoiding(m, ref, ci) {
						stale = "used at " + c.Pos(ref.Pos()) + " after " + calleeFullName(m)
					}
				}
			}
			r.Check(stale == "", sprintf("bytes-not-used-after-rewrite|%s#%d", c.FuncKey(fn), q), c.Pos(ci.Pos()), "what Bytes() returned is not read after the buffer was reset or written again", stale)
		}
		// writes of the constant nil
		k := 0
		for _, ci := range callsIn(fn) {
			name := calleeFullName(ci)
			args := ci.Common().Args
			var data ssa.Value
			switch {
			case (name == "(*bytes.Buffer).Write" || name == "(*bytes.Buffer).WriteString") && len(args) == 2:
				data = args[1]
			case ci.Common().IsInvoke() && ci.Common().Method.Name() == "Write" && len(args) == 1:
				data = args[0]
			default:
				continue
			}
			k++
			kc, isK := data.(*ssa.Const)
			nothing := isK && (kc.Value == nil || (kc.Value.Kind() == constant.String && constant.StringVal(kc.Value) == ""))
			r.Check(!nothing, sprintf("writes-something|%s#%d", c.FuncKey(fn), k), c.Pos(ci.Pos()), "what is written is not the constant nil", sprintf("constant nil: %v", nothing))
		}
	}
}

func init() {
	register(&Rule{Name: "LINT-NILCHECKED", Floor: 3, Run: ruleNilChecked, Fixture: "fixture.checkedThenUsedUnchecked",
		Doc: "a pointer held in a field that a function tests against nil (so nil is possible there) is not dereferenced further down where neither that test nor another one has established that it is not nil (a test joined with the wrong connective lets the nil through)"})
}

// ruleNilChecked: Engler's "checked, then used unchecked", for pointers read from a field of a local or a parameter. The
// test says nil can occur; every later dereference of a fresh read of the same field needs a dominating fact that the
// field is not nil, unless the field is stored to after the test.
func ruleNilChecked(c *Ctx, r *Rep) {
	type place struct {
		base  ssa.Value
		field int
	}
	placeOf := func(v ssa.Value) (place, bool) {
		switch x := v.(type) {
		case *ssa.UnOp:
			if x.Op == token.MUL {
				if fa, ok := x.X.(*ssa.FieldAddr); ok {
					return place{fa.X, fa.Field}, true
				}
			}
		case *ssa.Field:
			// a field of a struct value loaded whole from a local
			if ld, ok := x.X.(*ssa.UnOp); ok && ld.Op == token.MUL {
				return place{ld.X, x.Field}, true
			}
		}
		return place{}, false
	}
	for _, fn := range c.Funcs {
		// the nil tests of field places, and for each block the places known non-nil there
		type test struct {
			p   place
			iff *ssa.If
		}
		var tests []test
		for _, b := range fn.Blocks {
			iff, ok := lastInstr(b).(*ssa.If)
			if !ok {
				continue
			}
			x, _, ok := nilTestOf(iff.Cond, true)
			if !ok {
				continue
			}
			if _, isPtr := x.Type().Underlying().(*types.Pointer); !isPtr {
				continue
			}
			if p, ok := placeOf(x); ok {
				tests = append(tests, test{p, iff})
			}
		}
		optionalDecoded(c, r, fn)
		if len(tests) == 0 {
			continue
		}
		storedAfter := func(p place, from *ssa.BasicBlock) bool {
			for _, b := range fn.Blocks {
				if !from.Dominates(b) {
					continue
				}
				for _, ins := range b.Instrs {
					if st, ok := ins.(*ssa.Store); ok {
						if fa, ok := st.Addr.(*ssa.FieldAddr); ok && fa.Field == p.field && (fa.X == p.base || types.Identical(fa.X.Type(), p.base.Type())) {
							return true
						}
						if st.Addr == p.base {
							return true // the whole struct is overwritten
						}
					}
				}
			}
			return false
		}
		n := 0
		seen := map[ssa.Instruction]bool{}
		for _, t := range tests {
			if storedAfter(t.p, t.iff.Block()) {
				continue
			}
			for _, b := range fn.Blocks {
				if b == t.iff.Block() || !blockReaches(t.iff.Block(), b) {
					continue
				}
				for _, ins := range b.Instrs {
					if seen[ins] {
						continue
					}
					var through ssa.Value
					what := ""
					switch u := ins.(type) {
					case *ssa.FieldAddr:
						through, what = u.X, "field "+fieldOfAddr(u).Name()
					case *ssa.UnOp:
						if u.Op == token.MUL {
							through, what = u.X, "the value pointed to"
						}
					}
					if through == nil {
						continue
					}
					p, ok := placeOf(through)
					if !ok || p != t.p {
						continue
					}
					seen[ins] = true
					n++
					known := false
					for _, g := range guardsOf(b) {
						if x, isNil, ok := nilTestOf(g.Cond, g.Truth); ok && !isNil {
							if gp, ok := placeOf(x); ok && gp == p {
								known = true
							}
						}
					}
					r.Check(known, sprintf("deref-after-test|%s#%d", c.FuncKey(fn), n), c.Pos(ins.Pos()), "a field tested against nil earlier is dereferenced only where a test has established that it is not nil", sprintf("%s: non-nil established: %v", what, known))
				}
			}
		}
	}
}

// blockReaches: b can be reached from a by following successor edges (a itself only round a loop).
func blockReaches(a, b *ssa.BasicBlock) bool {
	seen := map[*ssa.BasicBlock]bool{}
	stack := append([]*ssa.BasicBlock{}, a.Succs...)
	for len(stack) > 0 {
		x := stack[len(stack)-1]
		stack = stack[:len(stack)-1]
		if seen[x] {
			continue
		}
		seen[x] = true
		if x == b {
			return true
		}
		stack = append(stack, x.Succs...)
	}
	return false
}

func init() {
	register(&Rule{Name: "LINT-FILLALL", Floor: 5, Run: ruleFillAll, Fixture: "fixture.elementSkippedWithoutStore",
		Doc: "a loop that fills a list made with one place per element of what it ranges over (or made empty with room for one entry per element and appended to) fills a place on every way round: no path from the loop's body back to its head avoids all stores into that list (an element left at its zero value is an attribute, a qualifier or a name dropped from the certificate)"})
}

// ruleFillAll: out := make([]T, len(in)); for i := range in { … out[f(i)] = … }. Every back edge is reached only through
// a store into out.
func ruleFillAll(c *Ctx, r *Rep) {
	for _, fn := range c.Funcs {
		loops := naturalLoops(fn)
		var heads []*ssa.BasicBlock
		for h := range loops {
			heads = append(heads, h)
		}
		sort.Slice(heads, func(i, j int) bool { return heads[i].Index < heads[j].Index })
		n := 0
		for _, h := range heads {
			body := loops[h]
			iff, ok := lastInstr(h).(*ssa.If)
			if !ok {
				continue
			}
			cmp, ok := iff.Cond.(*ssa.BinOp)
			if !ok {
				continue
			}
			var in ssa.Value
			switch cmp.Op {
			case token.LSS:
				in, ok = lenOperand(cmp.Y)
			case token.GEQ:
				// the same list walked from its end: for i := len(in) - 1; i >= 0; i--
				ok = false
				if k, isK := cmp.Y.(*ssa.Const); isK && k.Value != nil && k.Int64() == 0 {
					if phi, isPhi := cmp.X.(*ssa.Phi); isPhi && phi.Block() == h {
						for pi, e := range phi.Edges {
							if pi < len(h.Preds) && body[h.Preds[pi]] {
								continue
							}
							if of, kk, okL := lenPlus(e); okL && kk == -1 {
								in, ok = of, true
							}
						}
					}
				}
			default:
				ok = false
			}
			if !ok {
				continue
			}
			// the lists stored into inside the loop that were made, before the loop, with the length of `in`
			filled := map[ssa.Value]bool{}
			storeBlocks := map[ssa.Value]map[*ssa.BasicBlock]bool{}
			for b := range body {
				for _, ins := range b.Instrs {
					st, ok := ins.(*ssa.Store)
					if !ok {
						continue
					}
					addr := st.Addr
					for {
						if fa, ok := addr.(*ssa.FieldAddr); ok {
							addr = fa.X
							continue
						}
						break
					}
					ia, ok := addr.(*ssa.IndexAddr)
					if !ok {
						continue
					}
					mk, ok := ia.X.(*ssa.MakeSlice)
					if !ok {
						// the list kept in a field: policyIds[i].Qualifiers = make(…, len(in)) and then
						// policyIds[i].Qualifiers[j].X = … through a fresh read of the field
						if ld, isLd := ia.X.(*ssa.UnOp); isLd && ld.Op == token.MUL {
							if fa, isFa := ld.X.(*ssa.FieldAddr); isFa {
								for _, b2 := range fn.Blocks {
									for _, i2 := range b2.Instrs {
										st2, isSt := i2.(*ssa.Store)
										if !isSt {
											continue
										}
										fa2, isFa2 := st2.Addr.(*ssa.FieldAddr)
										if !isFa2 || fa2.Field != fa.Field || !types.Identical(fa2.X.Type(), fa.X.Type()) {
											continue
										}
										// the same element of the same outer list (or the same struct)
										sameBase := fa2.X == fa.X
										if ia1, ok1 := fa.X.(*ssa.IndexAddr); ok1 && !sameBase {
											if ia2, ok2 := fa2.X.(*ssa.IndexAddr); ok2 && ia1.X == ia2.X && ia1.Index == ia2.Index {
												sameBase = true
											}
										}
										if m2, isMk := st2.Val.(*ssa.MakeSlice); isMk && sameBase {
											mk, ok = m2, true
										}
									}
								}
							}
						}
					}
					if !ok || body[mk.Block()] {
						continue
					}
					of, k, ok := lenPlus(mk.Len)
					if !ok || k != 0 || !(of == in || sameLoad(of, in) || sameFieldLoad(of, in)) {
						continue
					}
					filled[mk] = true
					if storeBlocks[mk] == nil {
						storeBlocks[mk] = map[*ssa.BasicBlock]bool{}
					}
					storeBlocks[mk][b] = true
				}
			}
			// likewise a list made empty with room for one entry per element (make(T, 0, len(in))) and appended to
			for b := range body {
				for _, ins := range b.Instrs {
					call, ok := ins.(*ssa.Call)
					if !ok || len(call.Call.Args) == 0 {
						continue
					}
					if bi, isB := call.Call.Value.(*ssa.Builtin); !isB || bi.Name() != "append" {
						continue
					}
					// the list appended to: back through joins and earlier appends to where it was made
					var mk *ssa.MakeSlice
					seenV := map[ssa.Value]bool{}
					work := []ssa.Value{call.Call.Args[0]}
					for len(work) > 0 {
						v := work[len(work)-1]
						work = work[:len(work)-1]
						if seenV[v] {
							continue
						}
						seenV[v] = true
						switch x := v.(type) {
						case *ssa.MakeSlice:
							mk = x
						case *ssa.Phi:
							work = append(work, x.Edges...)
						case *ssa.Call:
							if bi, isB := x.Call.Value.(*ssa.Builtin); isB && bi.Name() == "append" && len(x.Call.Args) > 0 {
								work = append(work, x.Call.Args[0])
							}
						}
					}
					if mk == nil || body[mk.Block()] {
						continue
					}
					// an append inside an inner loop is that loop's business (one entry per outer element is then a matter
					// of what the inner loop finds)
					nested := false
					for h2, body2 := range loops {
						if h2 != h && body[h2] && body2[b] {
							nested = true
						}
					}
					if nested {
						continue
					}
					if k, isK := mk.Len.(*ssa.Const); !isK || k.Value == nil || k.Int64() != 0 {
						continue
					}
					of, k, ok := lenPlus(mk.Cap)
					if !ok || k != 0 || !(of == in || sameLoad(of, in) || sameFieldLoad(of, in)) {
						continue
					}
					filled[mk] = true
					if storeBlocks[mk] == nil {
						storeBlocks[mk] = map[*ssa.BasicBlock]bool{}
					}
					storeBlocks[mk][b] = true
				}
			}
			var outs []ssa.Value
			for out := range filled {
				outs = append(outs, out)
			}
			sort.Slice(outs, func(i, j int) bool { return outs[i].Pos() < outs[j].Pos() })
			for _, out := range outs {
				// from the body's entry, can the head be reached again without passing a storing block?
				var entry *ssa.BasicBlock
				for _, sc := range h.Succs {
					if body[sc] && sc != h {
						entry = sc
					}
				}
				if entry == nil {
					continue
				}
				n++
				avoid := false
				seen := map[*ssa.BasicBlock]bool{}
				stack := []*ssa.BasicBlock{entry}
				for len(stack) > 0 && !avoid {
					x := stack[len(stack)-1]
					stack = stack[:len(stack)-1]
					if seen[x] || !body[x] || storeBlocks[out][x] {
						continue
					}
					seen[x] = true
					for _, sc := range x.Succs {
						if sc == h {
							avoid = true
						}
						stack = append(stack, sc)
					}
				}
				r.Check(!avoid, sprintf("every-round-stores|%s#%d", c.FuncKey(fn), n), c.Pos(out.Pos()), "no way round the loop leaves the element's place in the list unfilled", sprintf("a round without a store exists: %v", avoid))
				// and the loop is left only through its own condition (or by returning): a `break` leaves the places of
				// all later elements unfilled
				var done *ssa.BasicBlock
				for _, sc := range h.Succs {
					if !body[sc] {
						done = sc
					}
				}
				early := ""
				if done != nil {
					// a block that breaks out cannot come round again, so it is not part of the natural loop: it shows as
					// another way into the block behind the loop, from below the header
					for _, p := range done.Preds {
						if p != h && h.Dominates(p) {
							early = "left early"
							if at := firstPos(p); at != "" {
								early = "left early at " + at
							}
						}
					}
				}
				r.Check(early == "", sprintf("no-early-exit|%s#%d", c.FuncKey(fn), n), c.Pos(out.Pos()), "a loop that fills one place per element is left only when all elements were seen (or by returning)", early)
			}
		}
	}
}

func init() {
	register(&Rule{Name: "LINT-KNOWNEMPTY", Floor: 1, Run: ruleKnownEmpty, Fixture: "fixture.storesWhatIsKnownEmpty",
		Doc: "a text or list is not copied into a structure on the very branch where a test has just found it empty (the presence test of an optional value the wrong way round: the value is taken exactly when there is none)"})
}

// ruleKnownEmpty: for every store whose value is a read of a string or list, no dominating fact says that this very
// read is empty. The instances counted are the stores that do lie behind an emptiness test of their value.
func ruleKnownEmpty(c *Ctx, r *Rep) {
	for _, fn := range c.Funcs {
		n := 0
		for _, b := range fn.Blocks {
			gs := guardsOf(b)
			if len(gs) == 0 {
				continue
			}
			for _, ins := range b.Instrs {
				st, ok := ins.(*ssa.Store)
				if !ok {
					continue
				}
				v := st.Val
				switch v.Type().Underlying().(type) {
				case *types.Slice:
				case *types.Basic:
					if !isStringish(v.Type()) {
						continue
					}
				default:
					continue
				}
				if _, isK := v.(*ssa.Const); isK {
					continue
				}
				for _, g := range gs {
					x, empty, ok := emptyTestOf(g.Cond, g.Truth)
					if !ok {
						continue
					}
					if !(x == v || sameLoad(x, v) || sameFieldLoad(x, v)) {
						continue
					}
					n++
					r.Check(!empty, sprintf("stored-where-present|%s#%d", c.FuncKey(fn), n), c.Pos(st.Pos()), "the value is stored where the test found it non-empty", sprintf("known empty here: %v", empty))
				}
			}
		}
	}
}

func init() {
	register(&Rule{Name: "LINT-LOOPVAR", Floor: 0, Run: ruleLoopVarAddr, Fixture: "fixture.addressOfLoopVariableKept",
		Doc: "the address of a variable that lives across the rounds of a loop and is assigned anew in each round (a range variable under the module's go 1.20 semantics) is not kept in a map, a list or a field inside that loop: every entry would point at the value of the last round"})
}

// ruleLoopVarAddr: a local made outside a loop, stored to inside the loop, whose address is put away inside the loop.
func ruleLoopVarAddr(c *Ctx, r *Rep) {
	for _, fn := range c.Funcs {
		loops := naturalLoops(fn)
		if len(loops) == 0 {
			continue
		}
		n := 0
		for _, b := range fn.Blocks {
			for _, ins := range b.Instrs {
				al, ok := ins.(*ssa.Alloc)
				if !ok || !al.Heap {
					continue
				}
				for _, body := range loops {
					if body[al.Block()] {
						continue // a variable of the round itself
					}
					assigned := false
					var kept ssa.Instruction
					for _, ref := range *al.Referrers() {
						if !body[ref.Block()] {
							continue
						}
						switch u := ref.(type) {
						case *ssa.Store:
							if u.Addr == ssa.Value(al) {
								assigned = true
							} else if u.Val == ssa.Value(al) {
								kept = u
							}
						case *ssa.MapUpdate:
							if u.Value == ssa.Value(al) {
								kept = u
							}
						case *ssa.MakeInterface:
							// boxed and then put away
							for _, r2 := range *u.Referrers() {
								switch u2 := r2.(type) {
								case *ssa.MapUpdate:
									if u2.Value == ssa.Value(u) && body[u2.Block()] {
										kept = u2
									}
								case *ssa.Store:
									if u2.Val == ssa.Value(u) && body[u2.Block()] {
										if _, isIdx := u2.Addr.(*ssa.IndexAddr); !isIdx {
											kept = u2
										}
									}
								}
							}
						}
					}
					if !assigned || kept == nil {
						continue
					}
					// a store into the element of a variadic argument list is a call argument, not a keeping
					if st, ok := kept.(*ssa.Store); ok {
						if ia, ok := st.Addr.(*ssa.IndexAddr); ok {
							if a2, ok := ia.X.(*ssa.Alloc); ok && a2.Comment == "varargs" {
								continue
							}
						}
					}
					n++
					r.Check(false, sprintf("loop-variable-address|%s#%d", c.FuncKey(fn), n), c.Pos(kept.Pos()), "the address of a variable reassigned in every round is not put away inside the loop", "address of "+al.Comment+" kept here")
				}
			}
		}
	}
}

func init() {
	register(&Rule{Name: "LINT-MAPORDER", Floor: 0, Run: ruleMapOrder, Fixture: "fixture.listBuiltInMapOrder",
		Doc: "no list, buffer or output is filled in the order in which a map is ranged over (the order differs from run to run; a merged configuration built that way hashes differently each time it is read)"})
}

// ruleMapOrder: inside a loop over a map, no append to a list that outlives the loop and no write to a buffer or writer,
// unless the list is sorted after the loop.
func ruleMapOrder(c *Ctx, r *Rep) {
	for _, fn := range c.Funcs {
		loops := naturalLoops(fn)
		n := 0
		for h, body := range loops {
			// a map loop: the header takes the next element of a range over a map
			var rng *ssa.Range
			for _, ins := range h.Instrs {
				if nx, ok := ins.(*ssa.Next); ok && !nx.IsString {
					if rg, ok := nx.Iter.(*ssa.Range); ok {
						if _, isMap := rg.X.Type().Underlying().(*types.Map); isMap {
							rng = rg
						}
					}
				}
			}
			if rng == nil {
				continue
			}
			n++
			bad := ""
			var at token.Pos
			for b := range body {
				for _, ins := range b.Instrs {
					call, ok := ins.(*ssa.Call)
					if !ok {
						continue
					}
					if bi, isB := call.Call.Value.(*ssa.Builtin); isB && bi.Name() == "append" {
						// does the grown list leave the loop (through the header's phi or a store)?
						leaves := false
						for _, ref := range *call.Referrers() {
							switch u := ref.(type) {
							case *ssa.Phi:
								leaves = leaves || u.Block() == h || !body[u.Block()]
							case *ssa.Store, *ssa.MapUpdate:
								leaves = true
							}
						}
						if !leaves {
							continue
						}
						// sorted afterwards?
						sorted := false
						for _, ci := range callsIn(fn) {
							name := calleeFullName(ci)
							if (strings.HasPrefix(name, "sort.") || strings.HasPrefix(name, "slices.Sort")) && !body[ci.Block()] && h.Dominates(ci.Block()) {
								sorted = true
							}
						}
						if !sorted {
							bad, at = "a list is appended to in map order", call.Pos()
						}
						continue
					}
					name := calleeFullName(call)
					if call.Call.IsInvoke() {
						name = call.Call.Method.Name()
					}
					if strings.HasPrefix(name, "(*bytes.Buffer).Write") || name == "Write" || strings.HasPrefix(name, "fmt.Fprint") || strings.HasPrefix(name, "(*strings.Builder).Write") {
						bad, at = "output is written in map order", call.Pos()
					}
				}
			}
			if !at.IsValid() {
				at = rng.Pos()
			}
			r.Check(bad == "", sprintf("map-order|%s#%d", c.FuncKey(fn), n), c.Pos(at), "nothing ordered is built in the order of a map", bad)
		}
	}
}

// optionalDecoded: a pointer-typed field of a struct that is decoded from a configuration document (a json tag, or
// embedded, in the configuration packages) is nil whenever the document leaves the key out. Every dereference through a
// read of such a field lies behind a test that has found it not nil - whether or not the function tests it anywhere.
func optionalDecoded(c *Ctx, r *Rep, fn *ssa.Function) {
	type place struct {
		base  ssa.Value // the address of the struct
		owner *types.Named
		field int
	}
	optPtr := func(nt *types.Named, idx int) bool {
		if nt == nil || !c.IsModObj(nt.Obj()) || !strings.Contains(nt.Obj().Pkg().Path(), "/config") {
			return false
		}
		st, ok := nt.Underlying().(*types.Struct)
		if !ok {
			return false
		}
		f := st.Field(idx)
		if _, isPtr := f.Type().Underlying().(*types.Pointer); !isPtr {
			return false
		}
		tag := reflect.StructTag(st.Tag(idx)).Get("json")
		return tag != "" && tag != "-" || f.Embedded()
	}
	// the pointer read: *(&s.f), or (*s).f for a struct loaded whole
	placeOf := func(v ssa.Value) (place, bool) {
		switch x := v.(type) {
		case *ssa.UnOp:
			if x.Op != token.MUL {
				return place{}, false
			}
			if fa, ok := x.X.(*ssa.FieldAddr); ok {
				if pt, ok := fa.X.Type().Underlying().(*types.Pointer); ok {
					nt, _ := pt.Elem().(*types.Named)
					return place{fa.X, nt, fa.Field}, nt != nil
				}
			}
		case *ssa.Field:
			if ld, ok := x.X.(*ssa.UnOp); ok && ld.Op == token.MUL {
				nt, _ := x.X.Type().(*types.Named)
				return place{ld.X, nt, x.Field}, nt != nil
			}
		}
		return place{}, false
	}
	n := 0
	for _, b := range fn.Blocks {
		for _, ins := range b.Instrs {
			var through ssa.Value
			switch u := ins.(type) {
			case *ssa.FieldAddr:
				through = u.X
			case *ssa.UnOp:
				if u.Op == token.MUL {
					through = u.X
				}
			}
			if through == nil {
				continue
			}
			p, ok := placeOf(through)
			if !ok || !optPtr(p.owner, p.field) {
				continue
			}
			// assigned in this very function: not the decoded value any more
			assigned := false
			for _, b2 := range fn.Blocks {
				for _, i2 := range b2.Instrs {
					if st, ok := i2.(*ssa.Store); ok {
						if fa2, ok := st.Addr.(*ssa.FieldAddr); ok && fa2.Field == p.field && types.Identical(fa2.X.Type(), types.NewPointer(p.owner)) {
							assigned = true
						}
					}
				}
			}
			if assigned {
				continue
			}
			n++
			known := false
			for _, g := range guardsOf(b) {
				if x, isNil, ok := nilTestOf(g.Cond, g.Truth); ok && !isNil {
					if gp, ok := placeOf(x); ok && gp.field == p.field && gp.owner == p.owner && (gp.base == p.base || types.Identical(gp.base.Type(), p.base.Type())) {
						known = true
					}
				}
			}
			// the common handler of the struct answered "nothing to say": it does so only where the content exists
			// (RAW-TABLE decides that), so behind `builder == nil` the content pointer is set
			if !known {
				for _, g := range guardsOf(b) {
					x, isNil, ok := nilTestOf(g.Cond, g.Truth)
					if !ok || !isNil {
						continue
					}
					ex, ok := x.(*ssa.Extract)
					if !ok || ex.Index != 0 {
						continue
					}
					call, ok := ex.Tuple.(*ssa.Call)
					if !ok || call.Call.StaticCallee() == nil || !c.InModule(call.Call.StaticCallee()) {
						continue
					}
					for _, a := range call.Call.Args {
						if mi, ok := a.(*ssa.MakeInterface); ok {
							if l2, ok := mi.X.(*ssa.UnOp); ok && l2.Op == token.MUL && l2.X == p.base {
								known = true
							}
						}
					}
				}
			}
			pos := ins.Pos()
			if pos == token.NoPos {
				pos = through.Pos()
			}
			if pos == token.NoPos {
				pos = fn.Pos()
			}
			st, _ := p.owner.Underlying().(*types.Struct)
			r.Check(known, sprintf("optional-pointer|%s#%d", c.FuncKey(fn), n), c.Pos(pos), "a pointer field that is nil when the document leaves the key out is dereferenced only behind a test that found it not nil", sprintf("field %s: non-nil established: %v", st.Field(p.field).Name(), known))
		}
	}
}

func min1(n int) int {
	if n > 0 {
		return 0
	}
	return n
}

// reachesAvoiding: instruction to can be executed after from on a way that does not execute def in between (def defines
// the value used at to: a way through def reads a new value).
func reachesAvoiding(from, to, def ssa.Instruction) bool {
	idx := func(ins ssa.Instruction) int {
		for i, x := range ins.Block().Instrs {
			if x == ins {
				return i
			}
		}
		return -1
	}
	// scan a block from position start: true if `to` is met before `def`; cont if the end is reached without meeting def
	scan := func(b *ssa.BasicBlock, start int) (hit, cont bool) {
		for i := start; i < len(b.Instrs); i++ {
			if b.Instrs[i] == to {
				return true, false
			}
			if b.Instrs[i] == def {
				return false, false
			}
		}
		return false, true
	}
	hit, cont := scan(from.Block(), idx(from)+1)
	if hit {
		return true
	}
	if !cont {
		return false
	}
	seen := map[*ssa.BasicBlock]bool{}
	stack := append([]*ssa.BasicBlock{}, from.Block().Succs...)
	for len(stack) > 0 {
		b := stack[len(stack)-1]
		stack = stack[:len(stack)-1]
		if seen[b] {
			continue
		}
		seen[b] = true
		hit, cont := scan(b, 0)
		if hit {
			return true
		}
		if cont {
			stack = append(stack, b.Succs...)
		}
	}
	return false
}

// firstPos: the position of the first instruction of b that has one (as text), "" if none has.
func firstPos(b *ssa.BasicBlock) string {
	for _, ins := range b.Instrs {
		if ins.Pos() != token.NoPos {
			p := b.Parent().Prog.Fset.Position(ins.Pos())
			return sprintf("%s:%d", p.Filename, p.Line)
		}
	}
	return ""
}
