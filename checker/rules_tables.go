package main

import (
	"encoding/json"
	"go/constant"
	"go/token"
	"go/types"
	"sort"
	"strings"

	"golang.org/x/tools/go/ssa"
)

func init() {
	register(&Rule{Name: "TAB-SIGALG", Floor: 40, Run: ruleTabSigAlg,
		Doc: "for every signature algorithm name of the schema: name -> constant (sigAlgorithms); resolveAlg's row for that constant has hash constructor = hash id = the hash the OID names, the OID and key kind of RFC 3279/4055/5758; sigAlgOids (inner identifier) has the same OID"})
	register(&Rule{Name: "TAB-KEYALG", Floor: 50, Run: ruleTabKeyAlg,
		Doc: "for every key algorithm name of the schema: name -> constant (keyAlgorithms) -> key kind (keyTypes) -> RSA bit size equal to the number in the name / the library curve function of that name (curves); defaults as documented"})
	register(&Rule{Name: "TAB-CURVEOID", Floor: 20, Run: ruleTabCurveOid,
		Doc: "curveNameOids pairs every curve with its RFC 5480/5639 OID and namedCurveFromOID is its inverse for all ten curves"})
	register(&Rule{Name: "TAB-ALGOID", Floor: 3, Run: ruleTabAlgOid,
		Doc: "SubjectPublicKeyInfo / PKCS#8 algorithm identifiers: rsaEncryption with NULL parameters, id-ecPublicKey with the named-curve OID; writer and reader use the same OIDs"})
}

// tableOfGlobal evaluates a package-level map/slice literal (plus init() assignments) into key/value lists.
func tableOfGlobal(c *Ctx, ev *evaluator, g *ssa.Global) (keys, vals []*Val, why string) {
	v := ev.GlobalVal(g.Object())
	switch v.Kind {
	case "map":
		keys, vals = v.Keys, v.Elems
	case "list":
		for i, e := range v.Elems {
			keys = append(keys, &Val{Kind: "const", Const: constant.MakeInt64(int64(i))})
			vals = append(vals, e)
		}
	case "ref", "call":
		// declared without literal (filled in init) or via make()
	default:
		return nil, nil, "initializer of " + g.Name() + " is not a literal: " + v.String()
	}
	k2, v2, _ := ev.InitAssignments(g.Object())
	keys = append(keys, k2...)
	vals = append(vals, v2...)
	if w := c.globalWrites(g.Object()); len(w) > 0 {
		return nil, nil, g.Name() + " is modified outside package initialisation: " + strings.Join(w, "; ")
	}
	return keys, vals, ""
}

type sigRow struct {
	hashNew, hashID, oid, key string
	pos                       token.Pos
}

// resolveAlgRows extracts, per case constant, what the table function returns.
func resolveAlgRows(c *Ctx, ev *evaluator, fn *ssa.Function, roles map[int64]string) (map[int64]*sigRow, map[int64]bool, string) {
	if len(fn.Params) != 1 {
		return nil, nil, "table function has not exactly one parameter"
	}
	if entry := c.algEntryFields(fn); entry != nil {
		return algEntryRows(c, fn, entry, roles)
	}
	tag := fn.Params[0]
	isTag := func(v ssa.Value) bool { return v == ssa.Value(tag) }
	res := fn.Signature.Results()
	idx := map[string]int{"hashID": -1, "hash": -1, "oid": -1, "key": -1, "err": -1}
	for i := 0; i < res.Len(); i++ {
		t := res.At(i).Type()
		switch {
		case typeIs(t, "crypto", "Hash"):
			idx["hashID"] = i
		case typeIs(t, "hash", "Hash"):
			idx["hash"] = i
		case isOID(t):
			idx["oid"] = i
		case isErrorType(t):
			idx["err"] = i
		default:
			if n, ok := t.(*types.Named); ok && c.IsModObj(n.Obj()) {
				idx["key"] = i
			}
		}
	}
	for k, i := range idx {
		if i < 0 {
			return nil, nil, "table function lacks a result for " + k
		}
	}
	rows := map[int64]*sigRow{}
	errRows := map[int64]bool{} // labels whose row returns a non-nil error
	get := func(label int64) *sigRow {
		if rows[label] == nil {
			rows[label] = &sigRow{}
		}
		return rows[label]
	}
	for _, ret := range returnsOf(fn) {
		for what, i := range idx {
			for _, pe := range phiEdges(retResults(ret)[i], ret.Block()) {
				k, ok := caseLabel(pe.From, isTag)
				if !ok {
					continue // default / fall-through edge: no algorithm constant is known here
				}
				row := get(k.Int64())
				d := c.describe(ev, pe.Val, 0)
				switch what {
				case "hashID":
					if d.IsConst() {
						row.hashID = c.constName(res.At(i).Type(), d.Const)
					} else {
						row.hashID = d.String()
					}
				case "hash":
					if d.Kind == "call" && strings.HasSuffix(d.Fn, "crypto.Hash).New") && len(d.Args) == 1 && d.Args[0].IsConst() {
						row.hashNew = c.constName(c.typeOfCryptoHash(fn), d.Args[0].Const)
						row.pos = d.Pos
					} else {
						row.hashNew = d.String()
					}
				case "oid":
					if d.Kind == "ints" {
						row.oid = oidString(d.Ints)
					} else {
						row.oid = d.String()
					}
				case "key":
					if n, ok := d.Int(); ok {
						row.key = roles[n]
					} else {
						row.key = d.String()
					}
				case "err":
					if d.Kind != "nil" {
						errRows[k.Int64()] = true
					}
				}
			}
		}
	}
	// the hash made once behind the switch, from the identifier the switch chose: hashID.New()
	for _, ret := range returnsOf(fn) {
		rr := retResults(ret)
		if call, ok := rr[idx["hash"]].(*ssa.Call); ok && calleeFullName(call) == "(crypto.Hash).New" && len(call.Call.Args) == 1 && call.Call.Args[0] == rr[idx["hashID"]] {
			for _, pe := range phiEdges(rr[idx["hashID"]], ret.Block()) {
				if k, ok := caseLabel(pe.From, isTag); ok {
					if row := rows[k.Int64()]; row != nil && row.hashNew == "" {
						row.hashNew = row.hashID
						row.pos = call.Pos()
					}
				}
			}
		}
	}
	if len(rows) == 0 {
		// no switch over the parameter: the table is data. Evaluate the function for every declared constant.
		tagT, _ := tag.Type().(*types.Named)
		if tagT == nil {
			return rows, errRows, ""
		}
		for _, k := range c.constsOf(tagT) {
			label, exact := constant.Int64Val(k.Val())
			if !exact {
				continue
			}
			assume := map[*ssa.Parameter]int64{tag: label}
			row := get(label)
			for _, ret := range returnsOf(fn) {
				// feasibility of the return itself
				errAlts := c.evalValUnder(ev, retResults(ret)[idx["err"]], assume, 0)
				if !blockFeasibleUnder(c, ev, ret.Block(), assume) {
					continue
				}
				for _, e := range errAlts {
					if e.Kind != "nil" {
						errRows[label] = true
					}
				}
				for what, i := range idx {
					if what == "err" {
						continue
					}
					alts := c.evalValUnder(ev, retResults(ret)[i], assume, 0)
					if len(alts) != 1 {
						continue
					}
					d := alts[0]
					switch what {
					case "hashID":
						if d.IsConst() {
							row.hashID = c.constName(res.At(i).Type(), d.Const)
						} else {
							row.hashID = d.String()
						}
					case "hash":
						if d.Kind == "call" && strings.HasSuffix(d.Fn, "crypto.Hash).New") && len(d.Args) == 1 && d.Args[0].IsConst() {
							row.hashNew = c.constName(c.typeOfCryptoHash(fn), d.Args[0].Const)
							row.pos = d.Pos
						} else {
							row.hashNew = d.String()
						}
					case "oid":
						if d.Kind == "ints" {
							row.oid = oidString(d.Ints)
						} else {
							row.oid = d.String()
						}
					case "key":
						if n, ok := d.Int(); ok {
							row.key = roles[n]
						} else {
							row.key = d.String()
						}
					}
				}
			}
			if errRows[label] && row.hashID == "" {
				delete(rows, label)
			}
		}
	}
	return rows, errRows, ""
}

// blockFeasibleUnder: the branch conditions that dominate b are consistent with the assumed parameter values
// (parameter == constant tests and `_, ok := table[param]` tests).
func blockFeasibleUnder(c *Ctx, ev *evaluator, b *ssa.BasicBlock, assume map[*ssa.Parameter]int64) bool {
	for _, g := range guardsOf(b) {
		alts := c.evalValUnder(ev, g.Cond, assume, 0)
		if len(alts) != 1 || !alts[0].IsConst() || alts[0].Const.Kind() != constant.Bool {
			if u, ok := g.Cond.(*ssa.UnOp); ok && u.Op == token.NOT {
				alts = c.evalValUnder(ev, u.X, assume, 0)
				if len(alts) == 1 && alts[0].IsConst() && alts[0].Const.Kind() == constant.Bool {
					if constant.BoolVal(alts[0].Const) == g.Truth {
						return false
					}
				}
			}
			continue
		}
		if constant.BoolVal(alts[0].Const) != g.Truth {
			return false
		}
	}
	return true
}

func (c *Ctx) typeOfCryptoHash(fn *ssa.Function) types.Type {
	res := fn.Signature.Results()
	for i := 0; i < res.Len(); i++ {
		if typeIs(res.At(i).Type(), "crypto", "Hash") {
			return res.At(i).Type()
		}
	}
	return nil
}

// nameTable evaluates the unique module map[string]T for the named module type T.
type hasPos interface{ Pos() token.Pos }

func nameTable(c *Ctx, ev *evaluator, elemType string) (map[string]int64, hasPos, string) {
	gs := c.globalsOfType(func(t types.Type) bool { return isMapOf(t, isString, c.isModNamed(elemType)) })
	if len(gs) == 0 {
		// no map: a function from the name to the constant (a switch, a search in a table of entries), folded for every
		// name of the schema
		return nameTableByFolding(c, elemType)
	}
	if len(gs) != 1 {
		return nil, nil, sprintf("expected exactly one package-level map[string]%s, found %d", elemType, len(gs))
	}
	keys, vals, why := tableOfGlobal(c, ev, gs[0])
	if why != "" {
		return nil, gs[0], why
	}
	out := map[string]int64{}
	for i := range keys {
		k, ok1 := keys[i].Str()
		v, ok2 := vals[i].Int()
		if !ok1 || !ok2 {
			return nil, gs[0], "non-constant entry " + keys[i].String() + ": " + vals[i].String()
		}
		if _, dup := out[k]; dup {
			return nil, gs[0], "duplicate key " + k
		}
		out[k] = v
	}
	return out, gs[0], ""
}

// schemaEnum reads the enum list of properties.<prop> from an embedded schema.
func schemaEnum(c *Ctx, file string, path ...string) ([]string, string) {
	b, _, err := c.EmbeddedFile("generator/config/v1", file)
	if err != nil {
		return nil, err.Error()
	}
	var cur any
	if err := json.Unmarshal(b, &cur); err != nil {
		return nil, err.Error()
	}
	for _, p := range path {
		m, ok := cur.(map[string]any)
		if !ok {
			return nil, "schema path " + strings.Join(path, ".") + " not found in " + file
		}
		cur = m[p]
	}
	list, ok := cur.([]any)
	if !ok {
		return nil, "no enum at " + strings.Join(path, ".") + " in " + file
	}
	var out []string
	for _, x := range list {
		if s, ok := x.(string); ok {
			out = append(out, s)
		}
	}
	return out, ""
}

func ruleTabSigAlg(c *Ctx, r *Rep) {
	ev := c.evaluator()
	roles, _, why := c.keyTypeRoles()
	if roles == nil {
		r.Undecided("anchor:key-kind-roles", "", why)
		return
	}
	fn := c.resolveAlgFunc()
	if fn == nil {
		r.Undecided("anchor:resolveAlg", "", "no unique module function returning (crypto.Hash, hash.Hash, …)")
		return
	}
	rows, errRows, why := resolveAlgRows(c, ev, fn, roles)
	if why != "" {
		r.Undecided("shape:"+c.FuncKey(fn), c.FnPos(fn), why)
		return
	}
	names, g, why := nameTable(c, ev, "SignatureAlgorithm")
	if why != "" {
		r.Undecided("anchor:sigAlgorithms", "", why)
		return
	}
	// inner-identifier table: the unique map[SignatureAlgorithm]ObjectIdentifier
	gs := c.globalsOfType(func(t types.Type) bool { return isMapOf(t, c.isModNamed("SignatureAlgorithm"), isOID) })
	inner := map[int64]string{}
	innerPos := ""
	if len(gs) == 1 {
		ks, vs, why := tableOfGlobal(c, ev, gs[0])
		if why != "" {
			r.Undecided("shape:"+gs[0].Name(), c.Pos(gs[0].Pos()), why)
			return
		}
		innerPos = c.Pos(gs[0].Pos())
		for i := range ks {
			n, ok := ks[i].Int()
			if !ok || vs[i].Kind != "ints" {
				r.Undecided("shape:"+gs[0].Name(), innerPos, "entry "+ks[i].String()+": "+vs[i].String())
				return
			}
			inner[n] = oidString(vs[i].Ints)
		}
	} else if len(gs) > 1 {
		r.Undecided("anchor:sigAlgOids", "", "more than one map[SignatureAlgorithm]ObjectIdentifier")
		return
	}
	enum, why := schemaEnum(c, "certificate.json", "properties", "signatureAlgorithm", "enum")
	if why != "" {
		r.Undecided("anchor:schema-enum", "", why)
		return
	}
	enumSet := map[string]bool{}
	for _, e := range enum {
		enumSet[e] = true
	}
	fpos := c.FnPos(fn)
	for _, ref := range refList("sigalgs") {
		name := rs(ref, "name")
		cite := rs(ref, "cite")
		r.Check(enumSet[name], "schema-enum|"+name, "generator/config/v1/certificate.json", "schema admits "+name, sprintf("%v", enumSet[name]))
		v, ok := names[name]
		if !r.Check(ok, "name->const|"+name, c.Pos(g.Pos()), "entry for "+name, sprintf("present=%v", ok)) {
			continue
		}
		row := rows[v]
		if row == nil {
			r.Bad("row|"+name, fpos, "a case for constant "+sprintf("%d", v), "none")
			continue
		}
		r.Check(!errRows[v], "row-no-error|"+name, fpos, "nil error", sprintf("error=%v", errRows[v]))
		r.Check(row.oid == rs(ref, "oid"), "outer-oid|"+name, fpos, rs(ref, "oid")+" ("+cite+")", row.oid)
		r.Check(row.hashNew == rs(ref, "hash"), "hash-constructor|"+name, fpos, rs(ref, "hash")+".New()", row.hashNew)
		r.Check(row.hashID == rs(ref, "hash"), "hash-id|"+name, fpos, rs(ref, "hash"), row.hashID)
		r.Check(row.key == rs(ref, "key"), "key-kind|"+name, fpos, rs(ref, "key"), row.key)
		if len(gs) == 1 {
			r.Check(inner[v] == rs(ref, "oid"), "inner-oid|"+name, innerPos, rs(ref, "oid")+" (= outer)", inner[v])
		}
	}
	// names the program accepts beyond the reference are reported, not judged
	for n := range names {
		known := false
		for _, ref := range refList("sigalgs") {
			if rs(ref, "name") == n {
				known = true
			}
		}
		if !known {
			r.Infof("additional signature algorithm name %q not in the reference table", n)
		}
	}
	for _, e := range enum {
		_, ok := names[e]
		r.Check(ok, "enum-has-entry|"+e, c.Pos(g.Pos()), "every schema enum value has a table entry", sprintf("present=%v", ok))
	}
}

func ruleTabKeyAlg(c *Ctx, r *Rep) {
	ev := c.evaluator()
	roles, keyKind, why := c.keyTypeRoles()
	if roles == nil {
		r.Undecided("anchor:key-kind-roles", "", why)
		return
	}
	names, g, why := nameTable(c, ev, "KeyAlgorithm")
	if why != "" {
		r.Undecided("anchor:keyAlgorithms", "", why)
		return
	}
	// keyTypes: map[KeyAlgorithm]keyKind
	kt := c.globalsOfType(func(t types.Type) bool {
		return isMapOf(t, c.isModNamed("KeyAlgorithm"), func(e types.Type) bool { return types.Identical(e, keyKind) })
	})
	if len(kt) != 1 {
		r.Undecided("anchor:keyTypes", "", sprintf("expected one map[KeyAlgorithm]%s, found %d", keyKind.Obj().Name(), len(kt)))
		return
	}
	kinds := map[int64]string{}
	ks, vs, why := tableOfGlobal(c, ev, kt[0])
	if why != "" {
		r.Undecided("shape:"+kt[0].Name(), c.Pos(kt[0].Pos()), why)
		return
	}
	for i := range ks {
		k, ok1 := ks[i].Int()
		v, ok2 := vs[i].Int()
		if !ok1 || !ok2 {
			r.Undecided("shape:"+kt[0].Name(), c.Pos(kt[0].Pos()), "non-constant entry")
			return
		}
		kinds[k] = roles[v]
	}
	// curves: map[KeyAlgorithm]elliptic.Curve filled in init
	cv := c.globalsOfType(func(t types.Type) bool {
		return isMapOf(t, c.isModNamed("KeyAlgorithm"), func(e types.Type) bool { return typeIs(e, "crypto/elliptic", "Curve") })
	})
	curveFn := map[int64]string{}
	if len(cv) == 0 {
		// no such map: the function from the algorithm to its curve is folded for every constant
		folded, _, why := curvesByFolding(c)
		if why != "" {
			r.Undecided("anchor:curves", "", "no map[KeyAlgorithm]elliptic.Curve, and "+why)
			return
		}
		for k, sym := range folded {
			curveFn[k] = strings.TrimSuffix(sym, "()")
		}
		ks, vs = nil, nil
	} else if len(cv) != 1 {
		r.Undecided("anchor:curves", "", sprintf("expected one map[KeyAlgorithm]elliptic.Curve, found %d", len(cv)))
		return
	} else {
		ks, vs, why = tableOfGlobal(c, ev, cv[0])
		if why != "" {
			r.Undecided("shape:"+cv[0].Name(), c.Pos(cv[0].Pos()), why)
			return
		}
	}
	for i := range ks {
		k, ok := ks[i].Int()
		if !ok || vs[i].Kind != "call" || len(vs[i].Args) != 0 {
			r.Undecided("shape:"+cv[0].Name(), c.Pos(cv[0].Pos()), "entry "+ks[i].String()+" = "+vs[i].String())
			return
		}
		if _, dup := curveFn[k]; dup {
			r.Bad("curves-duplicate|"+ks[i].String(), c.Pos(vs[i].Pos), "one assignment per key", "assigned twice")
		}
		curveFn[k] = vs[i].Fn
	}
	// RSA bit sizes: for every key-algorithm constant, the bit size that reaches rsa.GenerateKey when the function's
	// key-algorithm parameter has that value (evaluated through switches, module helpers and package-level tables)
	bits := map[int64]int64{}
	gen := c.funcsCalling("crypto/rsa.GenerateKey")
	var genFn *ssa.Function
	for f := range gen {
		genFn = f
	}
	if len(gen) != 1 {
		r.Undecided("anchor:rsa.GenerateKey", "", sprintf("expected one function calling rsa.GenerateKey, found %d", len(gen)))
		return
	}
	algParamOf := func(f *ssa.Function) *ssa.Parameter {
		for _, p := range f.Params {
			if c.isModNamed("KeyAlgorithm")(p.Type()) {
				return p
			}
		}
		return nil
	}
	algParam := algParamOf(genFn)
	if algParam == nil {
		r.Undecided("shape:"+c.FuncKey(genFn), c.FnPos(genFn), "no KeyAlgorithm parameter")
		return
	}
	// a helper receives the algorithm from its callers unchanged
	var passedOn func(f *ssa.Function, d int) bool
	passedOn = func(f *ssa.Function, d int) bool {
		if f.Object() != nil && f.Object().Exported() || d > 3 {
			return true
		}
		p := algParamOf(f)
		idx := -1
		for i, q := range f.Params {
			if q == p {
				idx = i
			}
		}
		n := 0
		for _, caller := range c.Funcs {
			for _, ci := range callsIn(caller) {
				if ci.Common().StaticCallee() != f || idx < 0 || idx >= len(ci.Common().Args) {
					continue
				}
				n++
				ap, ok := ci.Common().Args[idx].(*ssa.Parameter)
				if !ok || ap != algParamOf(caller) || !passedOn(caller, d+1) {
					return false
				}
			}
		}
		return n > 0
	}
	r.Check(passedOn(genFn, 0), "rsa-generate-same-algorithm|"+c.FuncKey(genFn), c.FnPos(genFn), "the RSA generator is handed the configured key algorithm unchanged", "call sites checked")
	for _, ci := range gen[genFn] {
		for k, kind := range kinds {
			if kind != "rsa" {
				continue
			}
			vals, ok := evalIntUnder(c, ev, ci.Common().Args[1], map[*ssa.Parameter]int64{algParam: k}, 0)
			if !ok || len(vals) != 1 {
				r.Undecided("shape:"+c.FuncKey(genFn)+sprintf("|bits|%d", k), c.Pos(ci.Pos()), sprintf("cannot evaluate the bit size for key algorithm %d: %v", k, vals))
				continue
			}
			bits[k] = vals[0]
		}
	}
	// which generator a key algorithm reaches: the RSA one exactly for the RSA algorithms, the EC one exactly for the others
	// (evaluated through the branch on the key kind, in the generator function or in the caller that picks a helper)
	var feasibleFor func(f *ssa.Function, b *ssa.BasicBlock, k int64, d int) bool
	feasibleFor = func(f *ssa.Function, b *ssa.BasicBlock, k int64, d int) bool {
		p := algParamOf(f)
		if p == nil {
			return true
		}
		if !blockFeasibleUnder(c, ev, b, map[*ssa.Parameter]int64{p: k}) {
			return false
		}
		if f.Object() != nil && f.Object().Exported() || d > 3 {
			return true
		}
		// an unexported helper: feasible if some call of it is
		n, any := 0, false
		for _, caller := range c.Funcs {
			for _, ci := range callsIn(caller) {
				if ci.Common().StaticCallee() != f {
					continue
				}
				n++
				if feasibleFor(caller, ci.Block(), k, d+1) {
					any = true
				}
			}
		}
		return n == 0 || any
	}
	ecSites := c.funcsCalling("crypto/ecdsa.GenerateKey")
	for k, kind := range kinds {
		rsaReached, ecReached := false, false
		for f, cis := range gen {
			for _, ci := range cis {
				if feasibleFor(f, ci.Block(), k, 0) {
					rsaReached = true
				}
			}
		}
		for f, cis := range ecSites {
			for _, ci := range cis {
				if feasibleFor(f, ci.Block(), k, 0) {
					ecReached = true
				}
			}
		}
		name := sprintf("%d", k)
		r.Check(rsaReached == (kind == "rsa") && ecReached == (kind == "ec"), "generator-kind|"+name, c.FnPos(genFn), "a key algorithm of kind "+kind+" reaches the generator of that kind and not the other", sprintf("rsa generator reached: %v, ec generator reached: %v", rsaReached, ecReached))
	}
	// the EC generator: ecdsa.GenerateKey's curve argument is a lookup in the curves table by the key-algorithm parameter
	ecGen := c.funcsCalling("crypto/ecdsa.GenerateKey")
	okLookup := false
	for f, cis := range ecGen {
		for _, ci := range cis {
			for _, pe := range phiEdges(ci.Common().Args[0], ci.Block()) {
				v := pe.Val
				if ex, ok := v.(*ssa.Extract); ok {
					v = ex.Tuple
				}
				if lk, ok := v.(*ssa.Lookup); ok && len(cv) == 1 && loadsGlobal(lk.X, cv[0].Object()) && algParamOf(f) != nil && lk.Index == ssa.Value(algParamOf(f)) && passedOn(f, 0) {
					okLookup = true
				}
				if call, ok := v.(*ssa.Call); ok && len(cv) == 0 {
					if _, tabFn, why := curvesByFolding(c); why == "" && call.Call.StaticCallee() == tabFn && algParamOf(f) != nil && call.Call.Args[0] == ssa.Value(algParamOf(f)) && passedOn(f, 0) {
						okLookup = true
					}
				}
			}
		}
	}
	r.Check(okLookup, "ec-generate-uses-curves-table", c.FnPos(genFn), "ecdsa.GenerateKey(curves[keyAlg], …)", sprintf("%v", okLookup))

	enum, why := schemaEnum(c, "certificate.json", "properties", "keyAlgorithm", "enum")
	if why != "" {
		r.Undecided("anchor:schema-enum", "", why)
		return
	}
	enumSet := map[string]bool{}
	for _, e := range enum {
		enumSet[e] = true
	}
	gpos := c.Pos(g.Pos())
	used := map[int64]string{}
	for _, ref := range refList("keyalgs") {
		name := rs(ref, "name")
		r.Check(enumSet[name], "schema-enum|"+name, "generator/config/v1/certificate.json", "schema admits "+name, sprintf("%v", enumSet[name]))
		v, ok := names[name]
		if !r.Check(ok, "name->const|"+name, gpos, "entry for "+name, sprintf("present=%v", ok)) {
			continue
		}
		if prev, dup := used[v]; dup {
			r.Bad("name->const-distinct|"+name, gpos, "a constant of its own", "shares constant "+sprintf("%d", v)+" with "+prev)
		} else {
			r.Ok("name->const-distinct|"+name, gpos, "a constant of its own", sprintf("%d", v))
			used[v] = name
		}
		r.Check(kinds[v] == rs(ref, "key"), "key-kind|"+name, c.Pos(kt[0].Pos()), rs(ref, "key"), kinds[v])
		if rs(ref, "key") == "rsa" {
			r.Check(bits[v] == int64(ri(ref, "bits")), "rsa-bits|"+name, c.FnPos(genFn), sprintf("%d", ri(ref, "bits")), sprintf("%d", bits[v]))
		} else {
			curvesPos := c.FnPos(genFn)
			if len(cv) == 1 {
				curvesPos = c.Pos(cv[0].Pos())
			}
			r.Check(curveFn[v] == rs(ref, "curve"), "curve|"+name, curvesPos, rs(ref, "curve")+"() ("+rs(ref, "cite")+")", curveFn[v])
		}
	}
	for _, e := range enum {
		_, ok := names[e]
		r.Check(ok, "enum-has-entry|"+e, gpos, "every schema enum value has a table entry", sprintf("present=%v", ok))
	}
	for n := range names {
		if !enumSet[n] {
			r.Infof("key algorithm name %q is in the table but not in the schema enum", n)
		}
	}
	ruleKeyDefaults(c, r, ev, names)
}

// ruleKeyDefaults: omitted keyAlgorithm -> P-224 or P-256; omitted signatureAlgorithm ->
// RSAwithSHA256 iff the configured key name starts with "RSA", else ECDSAwithSHA256.
func ruleKeyDefaults(c *Ctx, r *Rep, ev *evaluator, keyNames map[string]int64) {
	sigNames, sigAt, why := nameTable(c, ev, "SignatureAlgorithm")
	if why != "" {
		r.Undecided("anchor:sigAlgorithms", "", why)
		return
	}
	// where the name tables are functions, what they answer is a looked-up value, not a default
	lookups := map[*ssa.Function]bool{}
	if f, ok := sigAt.(*ssa.Function); ok {
		lookups[f] = true
	}
	if _, keyAt, _ := nameTable(c, ev, "KeyAlgorithm"); keyAt != nil {
		if f, ok := keyAt.(*ssa.Function); ok {
			lookups[f] = true
		}
	}
	// the function that stores into CertificateContent.KeyAlgorithm / SignatureAlgorithm from the YAML struct
	var fn *ssa.Function
	for _, f := range c.Funcs {
		for _, b := range f.Blocks {
			for _, ins := range b.Instrs {
				if st, ok := ins.(*ssa.Store); ok {
					if fa, ok := st.Addr.(*ssa.FieldAddr); ok && fieldOfAddr(fa).Name() == "KeyAlgorithm" && strings.HasSuffix(ownerName(c, fa.X.Type()), "CertificateContent") {
						if !strings.HasSuffix(c.shortPkg(f.Pkg.Pkg.Path()), "_test") {
							fn = f
						}
					}
				}
			}
		}
	}
	if fn == nil {
		r.Undecided("anchor:defaults", "", "no function stores CertificateContent.KeyAlgorithm")
		return
	}
	pos := c.FnPos(fn)
	var keyDefaults, sigRSA, sigEC []int64
	// the constants that can reach the two fields, each with the branch facts under which it is chosen - followed
	// through phis and through the results of module helpers
	type alt struct {
		k      int64
		guards []guard
	}
	var alts func(v ssa.Value, at *ssa.BasicBlock, acc []guard, depth int) []alt
	alts = func(v ssa.Value, at *ssa.BasicBlock, acc []guard, depth int) []alt {
		if depth > 6 || v == nil {
			return nil
		}
		var out []alt
		switch x := v.(type) {
		case *ssa.Const:
			if x.Value != nil && x.Value.Kind() == constant.Int {
				gs := append([]guard{}, acc...)
				if at != nil {
					gs = append(gs, guardsOf(at)...)
				}
				out = append(out, alt{x.Int64(), gs})
			}
		case *ssa.Phi:
			for i, e := range x.Edges {
				p := x.Block().Preds[i]
				gs := append(append([]guard{}, acc...), edgeGuard(p, x.Block())...)
				out = append(out, alts(e, p, gs, depth+1)...)
			}
		case *ssa.Extract:
			if call, ok := x.Tuple.(*ssa.Call); ok {
				if g := call.Call.StaticCallee(); g != nil && c.InModule(g) && g.Blocks != nil && !lookups[g] {
					gs := append([]guard{}, acc...)
					if at != nil {
						gs = append(gs, guardsOf(at)...)
					}
					for _, ret := range returnsOf(g) {
						rr := retResults(ret)
						if x.Index < len(rr) && !returnsNonNilError(ret) {
							out = append(out, alts(rr[x.Index], ret.Block(), gs, depth+1)...)
						}
					}
				}
			}
		case *ssa.Call:
			if g := x.Call.StaticCallee(); g != nil && c.InModule(g) && g.Blocks != nil && !lookups[g] {
				gs := append([]guard{}, acc...)
				if at != nil {
					gs = append(gs, guardsOf(at)...)
				}
				for _, ret := range returnsOf(g) {
					out = append(out, alts(retResults(ret)[0], ret.Block(), gs, depth+1)...)
				}
			}
		case *ssa.UnOp:
			// a local variable assigned on several paths
			if al, ok := x.X.(*ssa.Alloc); ok && x.Op == token.MUL && al.Referrers() != nil {
				for _, u := range *al.Referrers() {
					if st, ok := u.(*ssa.Store); ok && st.Addr == ssa.Value(al) {
						out = append(out, alts(st.Val, st.Block(), acc, depth+1)...)
					}
				}
			}
		}
		return out
	}
	for _, b := range fn.Blocks {
		for _, ins := range b.Instrs {
			st, ok := ins.(*ssa.Store)
			if !ok {
				continue
			}
			fa, ok := st.Addr.(*ssa.FieldAddr)
			if !ok || !strings.HasSuffix(ownerName(c, fa.X.Type()), "CertificateContent") {
				continue
			}
			switch fieldOfAddr(fa).Name() {
			case "KeyAlgorithm":
				for _, a := range alts(st.Val, b, nil, 0) {
					keyDefaults = append(keyDefaults, a.k)
				}
			case "SignatureAlgorithm":
				for _, a := range alts(st.Val, b, nil, 0) {
					// which side of a HasPrefix(…, "RSA") test?
					side := ""
					for _, g := range a.guards {
						cond, truth := g.Cond, g.Truth
						if u, ok := cond.(*ssa.UnOp); ok && u.Op == token.NOT {
							cond, truth = u.X, !truth
						}
						if call, ok := cond.(*ssa.Call); ok && calleeFullName(call) == "strings.HasPrefix" {
							if p, ok := call.Call.Args[1].(*ssa.Const); ok && p.Value != nil && constant.StringVal(p.Value) == "RSA" {
								if truth {
									side = "rsa"
								} else {
									side = "ec"
								}
							}
						}
					}
					switch side {
					case "rsa":
						sigRSA = append(sigRSA, a.k)
					case "ec":
						sigEC = append(sigEC, a.k)
					default:
						r.Bad("sig-default-guard", c.Pos(st.Pos()), "default signature algorithm chosen by strings.HasPrefix(keyAlgorithm, \"RSA\")", "constant not under such a test")
					}
				}
			}
		}
	}
	uniqI := func(in []int64) []int64 {
		m := map[int64]bool{}
		var out []int64
		for _, x := range in {
			if !m[x] {
				m[x] = true
				out = append(out, x)
			}
		}
		return out
	}
	keyDefaults, sigRSA, sigEC = uniqI(keyDefaults), uniqI(sigRSA), uniqI(sigEC)
	okKey := len(keyDefaults) == 1 && (keyDefaults[0] == keyNames["P-256"] || keyDefaults[0] == keyNames["P-224"])
	r.Check(okKey, "default-key-algorithm", pos, "the constant of P-256 or P-224", sprintf("%v", keyDefaults))
	r.Check(len(sigRSA) == 1 && sigRSA[0] == sigNames["RSAwithSHA256"], "default-sig-rsa", pos, "RSAwithSHA256 for RSA-* keys", sprintf("%v", sigRSA))
	r.Check(len(sigEC) == 1 && sigEC[0] == sigNames["ECDSAwithSHA256"], "default-sig-ec", pos, "ECDSAwithSHA256 otherwise", sprintf("%v", sigEC))
	// all RSA names start with "RSA" and no EC name does (so the prefix test separates the kinds)
	for _, ref := range refList("keyalgs") {
		want := rs(ref, "key") == "rsa"
		r.Check(strings.HasPrefix(rs(ref, "name"), "RSA") == want, "prefix-separates-kinds|"+rs(ref, "name"), pos, sprintf("prefix RSA = %v", want), rs(ref, "name"))
	}
}

func ruleTabCurveOid(c *Ctx, r *Rep) {
	ev := c.evaluator()
	// curveNameOids: map[string]ObjectIdentifier filled in init with keys curves[K].Params().Name
	gs := c.globalsOfType(func(t types.Type) bool { return isMapOf(t, isString, isOID) })
	var g *ssa.Global
	for _, x := range gs {
		if strings.HasSuffix(x.Pkg.Pkg.Path(), "generator/cert") {
			if g != nil {
				r.Undecided("anchor:curveNameOids", "", "more than one map[string]ObjectIdentifier in cert")
				return
			}
			g = x
		}
	}
	if g == nil {
		if why := curveOidsByFolding(c, r); why != "" {
			r.Undecided("anchor:curveNameOids", "", "no map[string]ObjectIdentifier in cert, and "+why)
		}
		return
	}
	ks, vs, why := tableOfGlobal(c, ev, g)
	if why != "" {
		r.Undecided("shape:"+g.Name(), c.Pos(g.Pos()), why)
		return
	}
	keyAlg := c.NamedType("generator/cert", "KeyAlgorithm")
	if keyAlg == nil {
		r.Undecided("anchor:KeyAlgorithm", "", "type not found")
		return
	}
	byConst := map[string]string{} // reference const name -> OID found
	_ = ks
	for i := range vs {
		// key must be curves[K].Params().Name
		k := ks[i]
		var kc *Val
		if k.Kind == "unknown" {
			// selector on a call: evaluate structurally from the AST is not supported by the evaluator; handled below
		}
		_ = kc
		if vs[i].Kind != "ints" {
			r.Undecided("shape:"+g.Name(), c.Pos(vs[i].Pos), "value is not an OID literal: "+vs[i].String())
			return
		}
	}
	// keys: re-read from the AST (curves[K].Params().Name)
	_, _, keyExprs := ev.InitAssignments(g.Object())
	pp, _ := c.PkgBySuffix("generator/cert")
	curvesG := c.globalsOfType(func(t types.Type) bool {
		return isMapOf(t, c.isModNamed("KeyAlgorithm"), func(e types.Type) bool { return typeIs(e, "crypto/elliptic", "Curve") })
	})
	tableForm := false
	if len(keyExprs) == 0 || len(keyExprs) != len(ks) {
		// data-driven form: init ranges over a table of (key algorithm, OID) and fills the map from it
		rows, why := curveNameOidsFromTable(c, ev, g, curvesG)
		if why != "" {
			r.Undecided("shape:"+g.Name(), c.Pos(g.Pos()), "table is not filled by init assignments only, and not from a table of entries: "+why)
			return
		}
		for k, o := range rows {
			byConst[k] = o
		}
		_ = tableForm
		keyExprs = nil
	}
	for i, ke := range keyExprs {
		kname, why := curveKeyConst(c, pp.TypesInfo, ke, curvesG)
		if why != "" {
			r.Undecided("shape:"+g.Name()+"|key", c.Pos(ke.Pos()), why)
			return
		}
		if _, dup := byConst[kname]; dup {
			r.Bad("duplicate|"+kname, c.Pos(ke.Pos()), "one entry per curve", "assigned twice")
		}
		byConst[kname] = oidString(vs[i].Ints)
	}
	consts := c.constsOf(keyAlg)
	// inverse: namedCurveFromOID
	inv, invFn, why := namedCurveInverse(c, ev, curvesG)
	if why != "" {
		r.Undecided("shape:namedCurveFromOID", "", why)
		return
	}
	seenOid := map[string]string{}
	for _, ref := range refList("curves") {
		cn := rs(ref, "const")
		k := consts[cn]
		if k == nil {
			r.Bad("const|"+cn, c.Pos(g.Pos()), "key algorithm constant for "+cn, "none")
			continue
		}
		v, _ := constant.Int64Val(k.Val())
		key := sprintf("%d", v)
		r.Check(byConst[key] == rs(ref, "oid"), "curve-oid|"+cn, c.Pos(g.Pos()), rs(ref, "oid")+" ("+rs(ref, "cite")+")", byConst[key])
		if prev, dup := seenOid[byConst[key]]; dup {
			r.Bad("oid-distinct|"+cn, c.Pos(g.Pos()), "a distinct OID per curve", "same as "+prev)
		}
		seenOid[byConst[key]] = cn
		r.Check(inv[rs(ref, "oid")] == key, "inverse|"+cn, c.FnPos(invFn), "namedCurveFromOID("+rs(ref, "oid")+") = curves["+cn+"]", "curves["+inv[rs(ref, "oid")]+"]")
	}
}

// curveKeyConst recognises curves[K].Params().Name and returns K's value as a string.
func curveKeyConst(c *Ctx, info *types.Info, e interface{ Pos() token.Pos }, curvesG []*ssa.Global) (string, string) {
	// AST shape: SelectorExpr{X: CallExpr{Fun: SelectorExpr{X: IndexExpr{X: curves, Index: K}, Sel: Params}}, Sel: Name}
	type sel = interface{}
	expr, ok := e.(interface {
		Pos() token.Pos
		End() token.Pos
	})
	_ = expr
	_ = ok
	return curveKeyConstAST(c, info, e, curvesG)
}

// namedCurveInverse extracts OID -> key constant from the function returning (elliptic.Curve, error) with an OID parameter.
func namedCurveInverse(c *Ctx, ev *evaluator, curvesG []*ssa.Global) (map[string]string, *ssa.Function, string) {
	var fn *ssa.Function
	for _, f := range c.Funcs {
		if f.Parent() != nil || len(f.Params) != 1 || !isOID(f.Params[0].Type()) {
			continue
		}
		res := f.Signature.Results()
		if res.Len() == 2 && typeIs(res.At(0).Type(), "crypto/elliptic", "Curve") && isErrorType(res.At(1).Type()) {
			if fn != nil {
				return nil, nil, "more than one func(ObjectIdentifier) (elliptic.Curve, error)"
			}
			fn = f
		}
	}
	if fn == nil {
		return nil, nil, "no func(ObjectIdentifier) (elliptic.Curve, error)"
	}
	if len(curvesG) != 1 {
		return nil, fn, "curves table not unique"
	}
	out := map[string]string{}
	for _, ret := range returnsOf(fn) {
		for _, pe := range phiEdges(retResults(ret)[0], ret.Block()) {
			v := pe.Val
			if k, ok := v.(*ssa.Const); ok && k.Value == nil {
				continue // nil curve with error
			}
			if ex, ok := v.(*ssa.Extract); ok {
				v = ex.Tuple
			}
			lk, ok := v.(*ssa.Lookup)
			if !ok || !loadsGlobal(lk.X, curvesG[0].Object()) {
				return nil, fn, "return value is not a lookup in the curves table: " + pe.Val.String()
			}
			kc, ok := lk.Index.(*ssa.Const)
			if !ok {
				// data-driven form: for _, e := range <table> { if oid.Equal(e.O) { return curves[e.K] } }
				tab, kField := tableElemField(lk.Index)
				if tab == nil {
					return nil, fn, "curves index is not constant"
				}
				oField := ""
				for _, g := range append(guardsOf(pe.From), guardsOf(ret.Block())...) {
					call, ok := g.Cond.(*ssa.Call)
					if !ok || !g.Truth || calleeFullName(call) != "(encoding/asn1.ObjectIdentifier).Equal" {
						continue
					}
					for _, pair := range [][2]ssa.Value{{call.Call.Args[0], call.Call.Args[1]}, {call.Call.Args[1], call.Call.Args[0]}} {
						if pair[0] == ssa.Value(fn.Params[0]) {
							if t2, f2 := tableElemField(pair[1]); t2 == tab {
								oField = f2
							}
						}
					}
				}
				if oField == "" {
					return nil, fn, "curve looked up by a table entry without an OID equality guard on the same entry"
				}
				rows, why := tableRows(c, ev, tab)
				if why != "" {
					return nil, fn, why
				}
				for _, row := range rows {
					k, okK := row[kField].Int()
					o := row[oField]
					if !okK || o == nil || o.Kind != "ints" {
						return nil, fn, "table entry is not (constant, OID literal)"
					}
					oid := oidString(o.Ints)
					if _, dup := out[oid]; dup {
						return nil, fn, "OID " + oid + " handled twice"
					}
					out[oid] = sprintf("%d", k)
				}
				continue
			}
			// guard: oid.Equal(<global oid>) true edge
			var oid string
			for _, g := range guardsOf(pe.From) {
				call, ok := g.Cond.(*ssa.Call)
				if !ok || !g.Truth || calleeFullName(call) != "(encoding/asn1.ObjectIdentifier).Equal" {
					continue
				}
				a0, a1 := call.Call.Args[0], call.Call.Args[1]
				other := a1
				if a1 == ssa.Value(fn.Params[0]) {
					other = a0
				} else if a0 != ssa.Value(fn.Params[0]) {
					continue
				}
				d := c.describe(ev, other, 0)
				if d.Kind == "ints" {
					oid = oidString(d.Ints)
				}
				break
			}
			if oid == "" {
				// the return may sit directly in the guarded block
				for _, g := range guardsOf(ret.Block()) {
					call, ok := g.Cond.(*ssa.Call)
					if !ok || !g.Truth || calleeFullName(call) != "(encoding/asn1.ObjectIdentifier).Equal" {
						continue
					}
					d := c.describe(ev, call.Call.Args[1], 0)
					if call.Call.Args[1] == ssa.Value(fn.Params[0]) {
						d = c.describe(ev, call.Call.Args[0], 0)
					}
					if d.Kind == "ints" {
						oid = oidString(d.Ints)
					}
					break
				}
			}
			if oid == "" {
				return nil, fn, "curve returned without an OID equality guard at " + c.Pos(ret.Pos())
			}
			if _, dup := out[oid]; dup {
				return nil, fn, "OID " + oid + " handled twice"
			}
			out[oid] = sprintf("%d", kc.Int64())
		}
	}
	return out, fn, ""
}

func ruleTabAlgOid(c *Ctx, r *Rep) {
	ev := c.evaluator()
	want := map[string]string{}
	for _, ref := range refList("spki") {
		want[rs(ref, "name")] = rs(ref, "oid")
	}
	// every store of an OID into a pkix.AlgorithmIdentifier.Algorithm field inside the functions that
	// handle keys (SetPrivateKey, MarshalPKCS8PrivateKey) and every Equal() comparison in ParsePKCS8PrivateKey
	// must use one of the two reference OIDs, paired with the right parameters.
	type site struct {
		fn     *ssa.Function
		pos    token.Pos
		oid    string
		st     *ssa.Store
		params string // for a whole identifier assigned at once: what its Parameters are
	}
	var sites []site
	for _, fn := range c.Funcs {
		if !strings.HasSuffix(fn.Pkg.Pkg.Path(), "generator/cert") || fn == mustSign(c) {
			continue
		}
		for _, b := range fn.Blocks {
			for _, ins := range b.Instrs {
				st, ok := ins.(*ssa.Store)
				if !ok {
					continue
				}
				fa, ok := st.Addr.(*ssa.FieldAddr)
				if !ok || fieldOfAddr(fa).Name() != "Algorithm" || !typeIs(fa.X.Type().Underlying().(*types.Pointer).Elem(), "crypto/x509/pkix", "AlgorithmIdentifier") {
					continue
				}
				if _, isParam := st.Val.(*ssa.Parameter); isParam {
					continue // a constructor helper: its call sites are the assignments (below)
				}
				d := c.describe(ev, st.Val, 0)
				if d.Kind != "ints" {
					r.Undecided("shape:"+c.FuncKey(fn)+"|alg-store", c.Pos(st.Pos()), "algorithm OID is not a package-level literal: "+d.String())
					continue
				}
				sites = append(sites, site{fn, st.Pos(), oidString(d.Ints), st, ""})
			}
		}
	}
	// whole identifiers assigned at once (a literal, or a constructor helper applied to an OID and parameters)
	for _, fn := range c.Funcs {
		if !strings.HasSuffix(fn.Pkg.Pkg.Path(), "generator/cert") || fn == mustSign(c) {
			continue
		}
		for _, b := range fn.Blocks {
			for _, ins := range b.Instrs {
				st, ok := ins.(*ssa.Store)
				if !ok || !typeIs(st.Val.Type(), "crypto/x509/pkix", "AlgorithmIdentifier") {
					continue
				}
				lf := literalFields(c, st.Val)
				if lf == nil || lf["Algorithm"] == nil {
					continue
				}
				if _, isCall := st.Val.(*ssa.Call); !isCall {
					continue // a literal built in place: its field stores were seen above
				}
				d := c.describe(ev, lf["Algorithm"], 0)
				if d.Kind != "ints" {
					r.Undecided("shape:"+c.FuncKey(fn)+"|alg-store", c.Pos(st.Pos()), "algorithm OID is not a package-level literal: "+d.String())
					continue
				}
				pk := "none"
				if pvv := lf["Parameters"]; pvv != nil {
					pd := c.describe(ev, pvv, 0)
					switch {
					case pd.Name == "encoding/asn1.NullRawValue" || strings.Contains(pd.String(), "NullRawValue"):
						pk = "NULL"
					case curveOidRawValue(c, pvv):
						pk = "curve-oid"
					default:
						pk = pd.String()
					}
				}
				sites = append(sites, site{fn, st.Pos(), oidString(d.Ints), st, pk})
			}
		}
	}
	for _, s := range sites {
		kind := ""
		for n, o := range want {
			if o == s.oid {
				kind = n
			}
		}
		key := c.FuncKey(s.fn) + "|" + s.oid
		if !r.Check(kind != "", "spki-oid|"+key, c.Pos(s.pos), "rsaEncryption or id-ecPublicKey", s.oid) {
			continue
		}
		// parameters stored next to it, in the same function under the same guards
		params := s.params
		if params == "" {
			params = paramsStoredWith(c, ev, s.st)
		}
		switch kind {
		case "rsaEncryption":
			r.Check(params == "NULL", "spki-params|"+key, c.Pos(s.pos), "NULL parameters (RFC 3279 2.3.1)", params)
		case "id-ecPublicKey":
			r.Check(params == "curve-oid", "spki-params|"+key, c.Pos(s.pos), "the named-curve OID from the curve table (RFC 5480 2.1.1)", params)
		}
	}
	// wherever key bits are put into a certificate body, the algorithm identifier is put there too (same branch)
	pvm := c.newProv()
	for _, fn := range c.Funcs {
		if !strings.HasSuffix(fn.Pkg.Pkg.Path(), "generator/cert") || fn == mustSign(c) {
			continue
		}
		var bits, algs []fstore
		for _, fs := range storesIntoType(c, fn, "cert.TbsCertificate") {
			switch {
			case fs.whole:
			case fs.field == "PublicKey.PublicKey.Bytes":
				if o := strings.Join(pvm.Origins(fs.val()), " "); strings.Contains(o, "Manipulations") {
					continue // a manipulation replaces the bits alone, on purpose (C19)
				}
				bits = append(bits, fs)
			case fs.field == "PublicKey.Algorithm.Algorithm":
				algs = append(algs, fs)
			}
		}
		// a call of a function that itself stores the identifier counts as storing it
		var algBlocks []*ssa.BasicBlock
		for _, a := range algs {
			algBlocks = append(algBlocks, a.st.Block())
		}
		for _, ci := range callsIn(fn) {
			if g := ci.Common().StaticCallee(); g != nil && g != fn && storesSpkiAlg(c, g, 0) {
				algBlocks = append(algBlocks, ci.Block())
			}
		}
		for i, bsr := range bits {
			ok := false
			for _, ab := range algBlocks {
				bb := bsr.st.Block()
				if ab == bb || ab.Dominates(bb) || bb.Dominates(ab) {
					ok = true
				}
			}
			if !ok && len(algBlocks) > 0 {
				// or: no successful exit can be reached from the bits without passing a store of the identifier
				avoid := map[*ssa.BasicBlock]bool{}
				for _, ab := range algBlocks {
					avoid[ab] = true
				}
				ok = true
				seenB := map[*ssa.BasicBlock]bool{}
				stack := []*ssa.BasicBlock{bsr.st.Block()}
				for len(stack) > 0 {
					x := stack[len(stack)-1]
					stack = stack[:len(stack)-1]
					if seenB[x] || avoid[x] {
						continue
					}
					seenB[x] = true
					if ret, isRet := lastInstr(x).(*ssa.Return); isRet && !returnsNonNilError(ret) {
						ok = false
					}
					stack = append(stack, x.Succs...)
				}
			}
			r.Check(ok, sprintf("spki-complete|%s#%d", c.FuncKey(fn), i+1), c.Pos(bsr.st.Pos()), "the algorithm identifier is stored in the same branch as the key bits", sprintf("%v", ok))
		}
		// and the other way round: where the identifier of a key is stored, its bits are stored too (in the same
		// branch, or by every caller before it gets here is not enough: a reused key comes through this function alone)
		for i, a := range algs {
			ok := false
			for _, bsr := range bits {
				ab, bb := a.st.Block(), bsr.st.Block()
				if ab == bb || ab.Dominates(bb) || bb.Dominates(ab) {
					ok = true
				}
			}
			r.Check(ok, sprintf("spki-bits-with-identifier|%s#%d", c.FuncKey(fn), i+1), c.Pos(a.st.Pos()), "the key bits are stored in the same branch as the algorithm identifier", sprintf("%v", ok))
		}
	}
	if len(sites) < 3 {
		r.Undecided("floor:alg-stores", "", sprintf("only %d algorithm-identifier stores found in key handling (expected SetPrivateKey rsa/ec and MarshalPKCS8PrivateKey rsa/ec)", len(sites)))
	}
	// reader: the PKCS#8 parser compares against the same two OIDs
	for _, fn := range c.Funcs {
		res := fn.Signature.Results()
		if fn.Parent() != nil || len(fn.Params) != 1 || res.Len() != 2 || !isErrorType(res.At(1).Type()) {
			continue
		}
		if sl, ok := fn.Params[0].Type().Underlying().(*types.Slice); !ok || !types.Identical(sl.Elem(), types.Typ[types.Byte]) {
			continue
		}
		if _, isIface := res.At(0).Type().Underlying().(*types.Interface); !isIface || !strings.HasSuffix(fn.Pkg.Pkg.Path(), "generator/cert") {
			continue
		}
		seen := map[string]bool{}
		for _, ci := range callsIn(fn) {
			if calleeFullName(ci) == "(encoding/asn1.ObjectIdentifier).Equal" {
				d := c.describe(ev, ci.Common().Args[1], 0)
				if d.Kind == "ints" {
					seen[oidString(d.Ints)] = true
				}
			}
		}
		if len(seen) == 0 {
			continue
		}
		for n, o := range want {
			r.Check(seen[o], "pkcs8-reader|"+c.FuncKey(fn)+"|"+n, c.FnPos(fn), "reader dispatches on "+o, fmtSet(seen))
		}
	}
}

func mustSign(c *Ctx) *ssa.Function {
	f, _ := c.signFunc()
	return f
}

// paramsStoredWith classifies what is stored into the Parameters field of the same
// AlgorithmIdentifier as the Algorithm store st: "NULL", "curve-oid", "none" or a description.
func paramsStoredWith(c *Ctx, ev *evaluator, st *ssa.Store) string {
	fa := st.Addr.(*ssa.FieldAddr)
	base := fa.X
	fn := st.Parent()
	found := "none"
	sameBase := func(v ssa.Value) bool {
		if v == base {
			return true
		}
		// two FieldAddr chains over the same root and same fields
		return accessKey(v) != "" && accessKey(v) == accessKey(base)
	}
	for _, b := range fn.Blocks {
		for _, ins := range b.Instrs {
			switch x := ins.(type) {
			case *ssa.Store:
				fa2, ok := x.Addr.(*ssa.FieldAddr)
				if !ok {
					continue
				}
				if !(x.Block() == st.Block() || x.Block().Dominates(st.Block()) || st.Block().Dominates(x.Block())) {
					continue
				}
				// nested literal: &(&base.Parameters).FullBytes = asn1.Marshal(curve oid)
				if inner, ok := fa2.X.(*ssa.FieldAddr); ok && fieldOfAddr(fa2).Name() == "FullBytes" && fieldOfAddr(inner).Name() == "Parameters" && sameBase(inner.X) {
					if marshalOfCurveOid(c, x.Val) {
						found = "curve-oid"
					} else {
						found = "FullBytes of something else"
					}
					continue
				}
				if fieldOfAddr(fa2).Name() != "Parameters" || !sameBase(fa2.X) {
					continue
				}
				d := c.describe(ev, x.Val, 0)
				if d.Name == "encoding/asn1.NullRawValue" || strings.Contains(d.String(), "NullRawValue") {
					found = "NULL"
				} else if curveOidRawValue(c, x.Val) {
					found = "curve-oid"
				} else {
					found = d.String()
				}
			case *ssa.Call:
				// a helper that fills the parameters from one of its arguments: h(…, oid) { asn1.Unmarshal(asn1.Marshal(oid), &….Parameters) }
				if g := x.Call.StaticCallee(); g != nil && c.InModule(g) && g.Blocks != nil && (x.Block() == st.Block() || x.Block().Dominates(st.Block()) || st.Block().Dominates(x.Block())) {
					for _, ci := range callsIn(g) {
						if calleeFullName(ci) != "encoding/asn1.Unmarshal" {
							continue
						}
						// the helper is handed the address of the Parameters field itself
						if pp, isParam := unwrapIface(ci.Common().Args[1]).(*ssa.Parameter); isParam {
							for i, q := range g.Params {
								if q != pp || i >= len(x.Call.Args) {
									continue
								}
								if faArg, ok := x.Call.Args[i].(*ssa.FieldAddr); ok && fieldOfAddr(faArg).Name() == "Parameters" && sameBase(faArg.X) {
									found = "unmarshal of something else"
									for _, pe := range phiEdges(ci.Common().Args[0], nil) {
										if ex, ok := pe.Val.(*ssa.Extract); ok {
											if mc, ok := ex.Tuple.(*ssa.Call); ok && calleeFullName(mc) == "encoding/asn1.Marshal" {
												for j, q2 := range g.Params {
													if unwrapIface(mc.Call.Args[0]) == ssa.Value(q2) && j < len(x.Call.Args) && isCurveOidLookup(c, x.Call.Args[j]) {
														found = "curve-oid"
													}
												}
											}
										}
									}
								}
							}
							continue
						}
						fa2, ok := unwrapIface(ci.Common().Args[1]).(*ssa.FieldAddr)
						if !ok || fieldOfAddr(fa2).Name() != "Parameters" {
							continue
						}
						// same object: the helper's access path below its parameter equals ours below the argument
						hk := accessKey(fa2.X)
						okBase := false
						for i, p := range g.Params {
							if i < len(x.Call.Args) && accessKey(x.Call.Args[i]) != "" && hk != "" &&
								strings.Replace(hk, "param:"+p.Name(), accessKey(x.Call.Args[i]), 1) == accessKey(base) && strings.Contains(hk, "param:"+p.Name()) {
								okBase = true
							}
						}
						if !okBase {
							continue
						}
						found = "unmarshal of something else"
						for _, pe := range phiEdges(ci.Common().Args[0], nil) {
							ex, ok := pe.Val.(*ssa.Extract)
							if !ok {
								continue
							}
							mc, ok := ex.Tuple.(*ssa.Call)
							if !ok || calleeFullName(mc) != "encoding/asn1.Marshal" {
								continue
							}
							for i, p := range g.Params {
								if unwrapIface(mc.Call.Args[0]) == ssa.Value(p) && i < len(x.Call.Args) && isCurveOidLookup(c, x.Call.Args[i]) {
									found = "curve-oid"
								}
							}
						}
					}
				}
				// asn1.Unmarshal(marshalledOid, &…Parameters)
				if calleeFullName(x) == "encoding/asn1.Unmarshal" && (x.Block() == st.Block() || x.Block().Dominates(st.Block()) || st.Block().Dominates(x.Block())) {
					if fa2, ok := unwrapIface(x.Call.Args[1]).(*ssa.FieldAddr); ok && fieldOfAddr(fa2).Name() == "Parameters" && sameBase(fa2.X) {
						if marshalOfCurveOid(c, x.Call.Args[0]) {
							found = "curve-oid"
						} else {
							found = "unmarshal of something else"
						}
					}
				}
			}
		}
	}
	return found
}

func unwrapIface(v ssa.Value) ssa.Value {
	for {
		switch x := v.(type) {
		case *ssa.MakeInterface:
			v = x.X
		case *ssa.ChangeInterface:
			v = x.X
		default:
			return v
		}
	}
}

// accessKey renders a chain of FieldAddr/Field/loads over a parameter or alloc root as a string.
func accessKey(v ssa.Value) string {
	switch x := v.(type) {
	case *ssa.FieldAddr:
		k := accessKey(x.X)
		if k == "" {
			return ""
		}
		return k + "." + fieldOfAddr(x).Name()
	case *ssa.UnOp:
		if x.Op == token.MUL {
			k := accessKey(x.X)
			if k == "" {
				return ""
			}
			return "*" + k
		}
	case *ssa.Parameter:
		return "param:" + x.Name()
	case *ssa.Alloc:
		return "alloc:" + x.Comment
	}
	return ""
}

// marshalOfCurveOid: v is the first result of asn1.Marshal(oid) where oid is a lookup in the map[string]OID table.
func marshalOfCurveOid(c *Ctx, v ssa.Value) bool {
	for _, pe := range phiEdges(v, nil) {
		ex, ok := pe.Val.(*ssa.Extract)
		if !ok {
			return false
		}
		call, ok := ex.Tuple.(*ssa.Call)
		if !ok || calleeFullName(call) != "encoding/asn1.Marshal" {
			return false
		}
		if !isCurveOidLookup(c, unwrapIface(call.Call.Args[0])) {
			return false
		}
	}
	return true
}

func isCurveOidLookup(c *Ctx, v ssa.Value) bool {
	if ex, ok := v.(*ssa.Extract); ok {
		v = ex.Tuple
	}
	if call, isCall := v.(*ssa.Call); isCall {
		// the curve table behind a function of the certificate package: func(string) (ObjectIdentifier, bool)
		if f := call.Call.StaticCallee(); f != nil && c.InModule(f) && f.Pkg != nil && strings.HasSuffix(f.Pkg.Pkg.Path(), "generator/cert") && len(f.Params) == 1 && isString(f.Params[0].Type()) {
			res := f.Signature.Results()
			return res.Len() == 2 && isOID(res.At(0).Type()) && isBoolType(res.At(1).Type())
		}
		return false
	}
	lk, ok := v.(*ssa.Lookup)
	if !ok {
		return false
	}
	u, ok := lk.X.(*ssa.UnOp)
	if !ok {
		return false
	}
	g, ok := u.X.(*ssa.Global)
	return ok && isMapOf(g.Object().Type(), isString, isOID)
}

var curveOidDepth int

// curveOidRawValue: a RawValue struct whose FullBytes is asn1.Marshal(curve oid lookup).
func curveOidRawValue(c *Ctx, v ssa.Value) bool {
	// the value made by a module helper from an OID it is given: the helper wraps the encoding of its parameter, and
	// the OID handed in is an entry of the curve table
	if ex, isEx := v.(*ssa.Extract); isEx && ex.Index == 0 {
		if call, isCall := ex.Tuple.(*ssa.Call); isCall {
			if h := call.Call.StaticCallee(); h != nil && c.InModule(h) && h.Blocks != nil {
				for i, prm := range h.Params {
					if !isOID(prm.Type()) || i >= len(call.Call.Args) || !isCurveOidLookup(c, call.Call.Args[i]) {
						continue
					}
					all, any := true, false
					for _, ret := range returnsOf(h) {
						if returnsNonNilError(ret) {
							continue
						}
						any = true
						if !rawValueOfOid(retResults(ret)[0], func(o ssa.Value) bool { return o == ssa.Value(prm) }) {
							all = false
						}
					}
					if all && any {
						return true
					}
				}
			}
		}
	}
	// or made entirely by a module helper (from the curve's name, say): every successful exit of the helper hands back
	// such a value
	if ex, isEx := v.(*ssa.Extract); isEx && ex.Index == 0 && curveOidDepth < 2 {
		if call, isCall := ex.Tuple.(*ssa.Call); isCall {
			if h := call.Call.StaticCallee(); h != nil && c.InModule(h) && h.Blocks != nil && typeIs(h.Signature.Results().At(0).Type(), "encoding/asn1", "RawValue") {
				curveOidDepth++
				all, any := true, false
				for _, ret := range returnsOf(h) {
					if definitelyFails(ret) {
						continue
					}
					any = true
					if !curveOidRawValue(c, retResults(ret)[0]) {
						all = false
					}
				}
				curveOidDepth--
				if all && any {
					return true
				}
			}
		}
	}
	if rawValueOfOid(v, func(o ssa.Value) bool { return isCurveOidLookup(c, o) }) {
		return true
	}
	u, ok := v.(*ssa.UnOp)
	if !ok {
		return false
	}
	al, ok := u.X.(*ssa.Alloc)
	if !ok {
		return false
	}
	for _, ref := range *al.Referrers() {
		// filled by asn1.Unmarshal(encoding of the curve OID, &value)
		if mi, isMi := ref.(*ssa.MakeInterface); isMi && mi.Referrers() != nil {
			for _, r2 := range *mi.Referrers() {
				if call, isCall := r2.(*ssa.Call); isCall && calleeFullName(call) == "encoding/asn1.Unmarshal" && len(call.Call.Args) == 2 && call.Call.Args[1] == ssa.Value(mi) && marshalOfCurveOid(c, call.Call.Args[0]) {
					return true
				}
			}
		}
		fa, ok := ref.(*ssa.FieldAddr)
		if !ok || fieldOfAddr(fa).Name() != "FullBytes" {
			continue
		}
		for _, rr := range *fa.Referrers() {
			if st, ok := rr.(*ssa.Store); ok && marshalOfCurveOid(c, st.Val) {
				return true
			}
		}
	}
	return false
}

func sortedKeys(m map[string]string) []string {
	var ks []string
	for k := range m {
		ks = append(ks, k)
	}
	sort.Strings(ks)
	return ks
}

// evalIntUnder evaluates an integer SSA value under the assumption that some parameters have given constant values:
// phis keep the edges whose source block is consistent with the assumption (switch cases), calls of module functions
// are followed into their feasible returns, lookups in package-level map literals are looked up.
func evalIntUnder(c *Ctx, ev *evaluator, v ssa.Value, assume map[*ssa.Parameter]int64, depth int) ([]int64, bool) {
	if depth > 6 {
		return nil, false
	}
	feasible := func(b *ssa.BasicBlock) bool {
		for _, g := range guardsOf(b) {
			bin, ok := g.Cond.(*ssa.BinOp)
			if !ok || (bin.Op != token.EQL && bin.Op != token.NEQ) {
				continue
			}
			p, okP := bin.X.(*ssa.Parameter)
			k, okK := bin.Y.(*ssa.Const)
			if !okP || !okK || k.Value == nil {
				continue
			}
			val, known := assume[p]
			if !known {
				continue
			}
			eq := val == k.Int64()
			if (bin.Op == token.EQL) != (eq == g.Truth) {
				return false
			}
		}
		return true
	}
	uniqI := func(in []int64) []int64 {
		m := map[int64]bool{}
		var out []int64
		for _, x := range in {
			if !m[x] {
				m[x] = true
				out = append(out, x)
			}
		}
		return out
	}
	argVal := func(a ssa.Value) (int64, bool) {
		if p, ok := a.(*ssa.Parameter); ok {
			val, known := assume[p]
			return val, known
		}
		if k, ok := a.(*ssa.Const); ok && k.Value != nil && k.Value.Kind() == constant.Int {
			return k.Int64(), true
		}
		return 0, false
	}
	callResult := func(call *ssa.Call, idx int) ([]int64, bool) {
		g := call.Call.StaticCallee()
		if g == nil || !c.InModule(g) || g.Blocks == nil {
			return nil, false
		}
		as2 := map[*ssa.Parameter]int64{}
		for i, prm := range g.Params {
			if i < len(call.Call.Args) {
				if val, ok := argVal(call.Call.Args[i]); ok {
					as2[prm] = val
				}
			}
		}
		var out []int64
		n := 0
		for _, ret := range returnsOf(g) {
			rr := retResults(ret)
			if idx >= len(rr) {
				return nil, false
			}
			for _, pe := range phiEdges(rr[idx], ret.Block()) {
				from := pe.From
				if from == nil {
					from = ret.Block()
				}
				// feasibility under the callee's assumption
				saved := assume
				assume = as2
				okF := feasible(from) && feasible(ret.Block())
				assume = saved
				if !okF {
					continue
				}
				vals, ok := evalIntUnder(c, ev, pe.Val, as2, depth+1)
				if !ok {
					return nil, false
				}
				n++
				out = append(out, vals...)
			}
		}
		return uniqI(out), n > 0
	}
	switch x := v.(type) {
	case *ssa.Const:
		if x.Value != nil && x.Value.Kind() == constant.Int {
			return []int64{x.Int64()}, true
		}
		return nil, false
	case *ssa.Parameter:
		if val, ok := assume[x]; ok {
			return []int64{val}, true
		}
		return nil, false
	case *ssa.Phi:
		var out []int64
		for i, e := range x.Edges {
			if !feasible(x.Block().Preds[i]) {
				continue
			}
			vals, ok := evalIntUnder(c, ev, e, assume, depth+1)
			if !ok {
				return nil, false
			}
			out = append(out, vals...)
		}
		return uniqI(out), len(out) > 0
	case *ssa.Call:
		return callResult(x, 0)
	case *ssa.Extract:
		switch t := x.Tuple.(type) {
		case *ssa.Call:
			return callResult(t, x.Index)
		case *ssa.Lookup:
			if x.Index == 0 {
				return evalIntUnder(c, ev, t, assume, depth+1)
			}
		}
		return nil, false
	case *ssa.Lookup:
		u, ok := x.X.(*ssa.UnOp)
		if !ok {
			return nil, false
		}
		g, ok := u.X.(*ssa.Global)
		if !ok {
			return nil, false
		}
		key, ok := argVal(x.Index)
		if !ok {
			return nil, false
		}
		ks, vs, why := tableOfGlobal(c, ev, g)
		if why != "" {
			return nil, false
		}
		for i := range ks {
			if kk, ok := ks[i].Int(); ok && kk == key {
				if vv, ok := vs[i].Int(); ok {
					return []int64{vv}, true
				}
				return nil, false
			}
		}
		return []int64{0}, true // absent key: zero value
	case *ssa.Convert:
		return evalIntUnder(c, ev, x.X, assume, depth+1)
	case *ssa.ChangeType:
		return evalIntUnder(c, ev, x.X, assume, depth+1)
	case *ssa.BinOp:
		// arithmetic on single values (a size computed from the algorithm's number instead of looked up)
		a, ok1 := evalIntUnder(c, ev, x.X, assume, depth+1)
		b, ok2 := evalIntUnder(c, ev, x.Y, assume, depth+1)
		if !ok1 || !ok2 || len(a) != 1 || len(b) != 1 {
			return nil, false
		}
		switch x.Op {
		case token.ADD:
			return []int64{a[0] + b[0]}, true
		case token.SUB:
			return []int64{a[0] - b[0]}, true
		case token.MUL:
			return []int64{a[0] * b[0]}, true
		case token.QUO:
			if b[0] != 0 {
				return []int64{a[0] / b[0]}, true
			}
		case token.SHL:
			if b[0] >= 0 && b[0] < 62 {
				return []int64{a[0] << uint(b[0])}, true
			}
		case token.OR:
			return []int64{a[0] | b[0]}, true
		case token.AND:
			return []int64{a[0] & b[0]}, true
		}
		return nil, false
	}
	return nil, false
}

// tableElemField: v is the load of field F of an element of a package-level slice (the element of a range loop over
// it): returns the slice variable and the field name.
func tableElemField(v ssa.Value) (*ssa.Global, string) {
	u, ok := v.(*ssa.UnOp)
	if !ok || u.Op != token.MUL {
		if f, isF := v.(*ssa.Field); isF {
			// value form: (load of element).F
			if l, ok := f.X.(*ssa.UnOp); ok && l.Op == token.MUL {
				if ia, ok := l.X.(*ssa.IndexAddr); ok {
					if g := loadedGlobal(ia.X); g != nil {
						return g, fieldOfVal(f).Name()
					}
				}
			}
		}
		return nil, ""
	}
	fa, ok := u.X.(*ssa.FieldAddr)
	if !ok {
		return nil, ""
	}
	switch base := fa.X.(type) {
	case *ssa.IndexAddr:
		if g := loadedGlobal(base.X); g != nil {
			return g, fieldOfAddr(fa).Name()
		}
	case *ssa.Alloc:
		// the element was copied into a local (range value variable): *local = table[i]
		if base.Referrers() != nil {
			for _, r := range *base.Referrers() {
				if st, ok := r.(*ssa.Store); ok && st.Addr == ssa.Value(base) {
					if l, ok := st.Val.(*ssa.UnOp); ok && l.Op == token.MUL {
						if ia, ok := l.X.(*ssa.IndexAddr); ok {
							if g := loadedGlobal(ia.X); g != nil {
								return g, fieldOfAddr(fa).Name()
							}
						}
					}
					// element of an array value: t = *table; t[i]
					if ix, ok := st.Val.(*ssa.Index); ok {
						if g := loadedGlobal(ix.X); g != nil {
							return g, fieldOfAddr(fa).Name()
						}
					}
				}
			}
		}
	}
	return nil, ""
}

func loadedGlobal(v ssa.Value) *ssa.Global {
	if u, ok := v.(*ssa.UnOp); ok && u.Op == token.MUL {
		if g, ok := u.X.(*ssa.Global); ok {
			return g
		}
	}
	return nil
}

// tableRows: the entries of a package-level slice-of-struct literal as field maps.
func tableRows(c *Ctx, ev *evaluator, g *ssa.Global) ([]map[string]*Val, string) {
	if w := c.globalWrites(g.Object()); len(w) > 0 {
		return nil, g.Name() + " is modified outside package initialisation"
	}
	v := ev.GlobalVal(g.Object())
	if v.Kind != "list" {
		return nil, g.Name() + " is not a list literal: " + v.String()
	}
	var out []map[string]*Val
	for _, e := range v.Elems {
		if e.Kind != "struct" || e.Fields == nil {
			return nil, g.Name() + " has an entry that is not a struct literal"
		}
		out = append(out, e.Fields)
	}
	return out, ""
}

// curveNameOidsFromTable recognises, in the package initialiser, `for _, e := range T { M[curves[e.K].Params().Name] = e.O }`
// and returns key-algorithm constant (as decimal string) -> OID for every entry of T.
func curveNameOidsFromTable(c *Ctx, ev *evaluator, m *ssa.Global, curvesG []*ssa.Global) (map[string]string, string) {
	if len(curvesG) != 1 {
		return nil, "curves table not unique"
	}
	out := map[string]string{}
	n := 0
	for _, fn := range c.Funcs {
		if !isInitFunc(fn) {
			continue
		}
		for _, b := range fn.Blocks {
			for _, ins := range b.Instrs {
				mu, ok := ins.(*ssa.MapUpdate)
				if !ok || loadedGlobal(mu.Map) != m {
					continue
				}
				n++
				tabV, oField := tableElemField(mu.Value)
				if tabV == nil {
					return nil, "a value stored into " + m.Name() + " is not a field of a table entry"
				}
				// key: (curves[e.K]).Params().Name
				kField := ""
				var walk func(v ssa.Value, d int)
				walk = func(v ssa.Value, d int) {
					if d > 8 || v == nil {
						return
					}
					switch x := v.(type) {
					case *ssa.UnOp:
						walk(x.X, d+1)
					case *ssa.FieldAddr:
						walk(x.X, d+1)
					case *ssa.Field:
						walk(x.X, d+1)
					case *ssa.Call:
						if x.Call.IsInvoke() {
							walk(x.Call.Value, d+1)
						} else if len(x.Call.Args) > 0 {
							walk(x.Call.Args[0], d+1)
						}
					case *ssa.Extract:
						walk(x.Tuple, d+1)
					case *ssa.Lookup:
						if loadedGlobal(x.X) == curvesG[0] {
							if t2, f2 := tableElemField(x.Index); t2 == tabV {
								kField = f2
							}
						}
					}
				}
				walk(mu.Key, 0)
				if kField == "" {
					return nil, "the key stored into " + m.Name() + " is not derived from curves[<entry>.K]"
				}
				rows, why := tableRows(c, ev, tabV)
				if why != "" {
					return nil, why
				}
				for _, row := range rows {
					k, okK := row[kField].Int()
					o := row[oField]
					if !okK || o == nil || o.Kind != "ints" {
						return nil, "table entry is not (constant, OID literal)"
					}
					key := sprintf("%d", k)
					if _, dup := out[key]; dup {
						return nil, "key algorithm " + key + " listed twice"
					}
					out[key] = oidString(o.Ints)
				}
			}
		}
	}
	if n == 0 {
		return nil, "no store into " + m.Name() + " in a package initialiser"
	}
	return out, ""
}

// storesSpkiAlg: g, or a module function it calls (three levels), stores the algorithm identifier of a certificate body's key.
func storesSpkiAlg(c *Ctx, g *ssa.Function, d int) bool {
	if g == nil || d > 3 || !c.InModule(g) || g.Blocks == nil {
		return false
	}
	for _, fs := range storesIntoType(c, g, "cert.TbsCertificate") {
		if !fs.whole && fs.field == "PublicKey.Algorithm.Algorithm" {
			return true
		}
	}
	for _, ci := range callsIn(g) {
		if h := ci.Common().StaticCallee(); h != nil && h != g && storesSpkiAlg(c, h, d+1) {
			return true
		}
	}
	return false
}

// rawValueOfOid: v is a RawValue variable that holds the DER of an OID satisfying oidIs - its FullBytes are
// asn1.Marshal(oid), or it was filled by asn1.Unmarshal(asn1.Marshal(oid), &v).
func rawValueOfOid(v ssa.Value, oidIs func(ssa.Value) bool) bool {
	u, ok := v.(*ssa.UnOp)
	if !ok || u.Op != token.MUL {
		return false
	}
	al, ok := u.X.(*ssa.Alloc)
	if !ok {
		return false
	}
	marshalOf := func(b ssa.Value) bool {
		for _, pe := range phiEdges(b, nil) {
			ex, ok := pe.Val.(*ssa.Extract)
			if !ok {
				return false
			}
			call, ok := ex.Tuple.(*ssa.Call)
			if !ok || calleeFullName(call) != "encoding/asn1.Marshal" || !oidIs(unwrapIface(call.Call.Args[0])) {
				return false
			}
		}
		return true
	}
	for _, ref := range *al.Referrers() {
		switch x := ref.(type) {
		case *ssa.FieldAddr:
			if fieldOfAddr(x).Name() != "FullBytes" {
				continue
			}
			for _, rr := range *x.Referrers() {
				if st, ok := rr.(*ssa.Store); ok && marshalOf(st.Val) {
					return true
				}
			}
		case *ssa.MakeInterface:
			for _, rr := range *x.Referrers() {
				if call, ok := rr.(*ssa.Call); ok && calleeFullName(call) == "encoding/asn1.Unmarshal" && len(call.Call.Args) == 2 && call.Call.Args[1] == ssa.Value(x) && marshalOf(call.Call.Args[0]) {
					return true
				}
			}
		}
	}
	return false
}

// nameTableByFolding: the function func(string) (T, bool|error) of the configuration reader, specialised for every
// name of the schema's enum and of the reference table; a name it answers with false or an error has no entry.
func nameTableByFolding(c *Ctx, elemType string) (map[string]int64, hasPos, string) {
	isT := c.isModNamed(elemType)
	var fn *ssa.Function
	for _, f := range c.Funcs {
		res := f.Signature.Results()
		if f.Parent() != nil || f.Blocks == nil || f.Signature.Recv() != nil || len(f.Params) != 1 || !isString(f.Params[0].Type()) || res.Len() != 2 || !isT(res.At(0).Type()) {
			continue
		}
		if !isBoolType(res.At(1).Type()) && !isErrorType(res.At(1).Type()) {
			continue
		}
		// the innermost one: it calls no other function of this kind
		inner := true
		for _, ci := range callsIn(f) {
			if h := ci.Common().StaticCallee(); h != nil && h != f && c.InModule(h) && h.Signature.Results().Len() == 2 && isT(h.Signature.Results().At(0).Type()) && len(h.Params) == 1 && isString(h.Params[0].Type()) {
				inner = false
			}
		}
		if !inner {
			continue
		}
		if fn != nil {
			return nil, nil, sprintf("no package-level map[string]%s and more than one func(string) (%s, ...)", elemType, elemType)
		}
		fn = f
	}
	if fn == nil {
		return nil, nil, sprintf("no package-level map[string]%s and no func(string) (%s, bool or error) to fold", elemType, elemType)
	}
	prop := strings.ToLower(elemType[:1]) + elemType[1:]
	names, why := schemaEnum(c, "certificate.json", "properties", prop, "enum")
	if why != "" {
		return nil, nil, why
	}
	ref := "keyalgs"
	if elemType == "SignatureAlgorithm" {
		ref = "sigalgs"
	}
	for _, e := range refList(ref) {
		if n := rs(e, "name"); n != "" {
			names = append(names, n)
		}
	}
	out := map[string]int64{}
	for _, name := range uniq(names) {
		fo := c.newFolder()
		res, ok := fo.Fold(fn, []*fval{fconst(constant.MakeString(name))}, 0)
		if !ok {
			return nil, nil, "the function from a name to its " + elemType + " cannot be folded for " + name + ": " + fo.why
		}
		if len(res) != 2 || res[0].k == nil {
			continue
		}
		if res[1].k != nil && res[1].k.Kind() == constant.Bool && !constant.BoolVal(res[1].k) {
			continue
		}
		if res[1].k == nil && !res[1].isNil {
			continue // an error
		}
		v, _ := constant.Int64Val(res[0].k)
		out[name] = v
	}
	return out, fn, ""
}

// algEntryRows: the algorithm table that answers (entry, error), folded for every declared constant of its parameter
// type. The hash itself is made from the entry's hash identifier by the caller (PROV-SIGN says so), so the row's
// constructor is that of its identifier.
func algEntryRows(c *Ctx, fn *ssa.Function, entry map[string]int, roles map[int64]string) (map[int64]*sigRow, map[int64]bool, string) {
	rows := map[int64]*sigRow{}
	errRows := map[int64]bool{}
	tagT, _ := fn.Params[0].Type().(*types.Named)
	if tagT == nil {
		return nil, nil, "the table's parameter is not a named type"
	}
	st := fn.Signature.Results().At(0).Type().Underlying().(*types.Struct)
	hashT := st.Field(entry["hashid"]).Type()
	for _, k := range c.constsOf(tagT) {
		label, exact := constant.Int64Val(k.Val())
		if !exact {
			continue
		}
		fo := c.newFolder()
		out, ok := fo.Fold(fn, []*fval{fconst(constant.MakeInt64(label))}, 0)
		if !ok {
			return nil, nil, "the algorithm table cannot be folded for " + k.Name() + ": " + fo.why
		}
		if len(out) != 2 {
			return nil, nil, "the algorithm table does not answer (entry, error)"
		}
		if !out[1].isNil {
			errRows[label] = true
			continue
		}
		e := out[0]
		if !e.isList || len(e.list) != st.NumFields() {
			return nil, nil, "the entry for " + k.Name() + " is not a literal"
		}
		row := &sigRow{pos: fn.Pos()}
		if h := e.list[entry["hashid"]]; h.k != nil {
			row.hashID = c.constName(hashT, h.k)
			row.hashNew = row.hashID
		}
		if o := e.list[entry["oid"]]; o.isList {
			var ints []int
			for _, x := range o.list {
				n, _ := constant.Int64Val(x.k)
				ints = append(ints, int(n))
			}
			row.oid = oidString(ints)
		}
		if kk := e.list[entry["key"]]; kk.k != nil {
			n, _ := constant.Int64Val(kk.k)
			row.key = roles[n]
		}
		rows[label] = row
	}
	return rows, errRows, ""
}

// algDefaultIsError: a value of the parameter type that is no declared constant is answered with an error.
func algDefaultIsError(c *Ctx, fn *ssa.Function) bool {
	probes := []int64{1 << 20, 255, 64}
	if tagT, ok := fn.Params[0].Type().(*types.Named); ok {
		max := int64(-1)
		for _, k := range c.constsOf(tagT) {
			if v, exact := constant.Int64Val(k.Val()); exact && v > max {
				max = v
			}
		}
		probes = append(probes, max+1) // the first value behind the declared ones
	}
	for _, probe := range probes {
		fo := c.newFolder()
		out, ok := fo.Fold(fn, []*fval{fconst(constant.MakeInt64(probe))}, 0)
		if !ok || len(out) != 2 || out[1].isNil {
			return false
		}
	}
	return true
}

// curvesByFolding: the function func(KeyAlgorithm) (elliptic.Curve, bool or error), specialised for every declared
// constant: the library constructor whose answer it hands back, by constant.
func curvesByFolding(c *Ctx) (map[int64]string, *ssa.Function, string) {
	var fn *ssa.Function
	for _, f := range c.Funcs {
		res := f.Signature.Results()
		if f.Parent() != nil || f.Blocks == nil || len(f.Params) != 1 || !c.isModNamed("KeyAlgorithm")(f.Params[0].Type()) || res.Len() != 2 || !typeIs(res.At(0).Type(), "crypto/elliptic", "Curve") {
			continue
		}
		if fn != nil {
			return nil, nil, "more than one func(KeyAlgorithm) (elliptic.Curve, ...)"
		}
		fn = f
	}
	if fn == nil {
		return nil, nil, "no func(KeyAlgorithm) (elliptic.Curve, ...) to fold"
	}
	out := map[int64]string{}
	for _, k := range c.constsOf(fn.Params[0].Type().(*types.Named)) {
		label, exact := constant.Int64Val(k.Val())
		if !exact {
			continue
		}
		fo := c.newFolder()
		res, ok := fo.Fold(fn, []*fval{fconst(constant.MakeInt64(label))}, 0)
		if !ok {
			return nil, nil, "the function from an algorithm to its curve cannot be folded for " + k.Name() + ": " + fo.why
		}
		if len(res) == 2 && res[0].sym != "" {
			out[label] = res[0].sym
		}
	}
	return out, fn, ""
}

// curveOidsByFolding: TAB-CURVEOID where the curves are a table of entries behind functions: algorithm -> curve (folded),
// curve name -> OID (the function func(string) (ObjectIdentifier, bool) folded for the library name of that curve), and
// the inverse OID -> curve (folded) must lead back to the curve of the same algorithm.
func curveOidsByFolding(c *Ctx, r *Rep) string {
	curves, curveFnF, why := curvesByFolding(c)
	if why != "" {
		return why
	}
	var byName, inverse *ssa.Function
	for _, f := range c.Funcs {
		res := f.Signature.Results()
		if f.Parent() != nil || f.Blocks == nil || f.Pkg == nil || !strings.HasSuffix(f.Pkg.Pkg.Path(), "generator/cert") || len(f.Params) != 1 || res.Len() != 2 {
			continue
		}
		if isString(f.Params[0].Type()) && isOID(res.At(0).Type()) && isBoolType(res.At(1).Type()) {
			byName = f
		}
		if isOID(f.Params[0].Type()) && typeIs(res.At(0).Type(), "crypto/elliptic", "Curve") && isErrorType(res.At(1).Type()) {
			inverse = f
		}
	}
	if byName == nil || inverse == nil {
		return "no func(string) (ObjectIdentifier, bool) / func(ObjectIdentifier) (elliptic.Curve, error) to fold"
	}
	keyAlg := c.NamedType("generator/cert", "KeyAlgorithm")
	consts := c.constsOf(keyAlg)
	seenOid := map[string]string{}
	pos := c.FnPos(curveFnF)
	for _, ref := range refList("curves") {
		cn := rs(ref, "const")
		k := consts[cn]
		if k == nil {
			r.Bad("const|"+cn, pos, "key algorithm constant for "+cn, "none")
			continue
		}
		v, _ := constant.Int64Val(k.Val())
		sym := curves[v]
		name := curveLibraryName(sym)
		got := ""
		var oidVal *fval
		if name != "" {
			fo := c.newFolder()
			if out, ok := fo.Fold(byName, []*fval{fconst(constant.MakeString(name))}, 0); ok && len(out) == 2 && out[1].k != nil && constant.BoolVal(out[1].k) && out[0].isList {
				var ints []int
				for _, e := range out[0].list {
					n, _ := constant.Int64Val(e.k)
					ints = append(ints, int(n))
				}
				got = oidString(ints)
				oidVal = out[0]
			} else if !ok {
				return "the function from a curve name to its OID cannot be folded for " + name + ": " + fo.why
			}
		}
		r.Check(got == rs(ref, "oid"), "curve-oid|"+cn, c.FnPos(byName), rs(ref, "oid")+" ("+rs(ref, "cite")+")", got)
		if prev, dup := seenOid[got]; dup && got != "" {
			r.Bad("oid-distinct|"+cn, c.FnPos(byName), "a distinct OID per curve", "same as "+prev)
		}
		seenOid[got] = cn
		back := ""
		if oidVal != nil {
			fo := c.newFolder()
			if out, ok := fo.Fold(inverse, []*fval{oidVal}, 0); ok && len(out) == 2 && out[1].isNil {
				back = out[0].sym
			} else if !ok {
				return "the function from an OID to its curve cannot be folded: " + fo.why
			}
		}
		r.Check(back != "" && back == sym, "inverse|"+cn, c.FnPos(inverse), "the curve found for "+rs(ref, "oid")+" is the curve of "+cn, back)
	}
	return ""
}

// definitelyFails: the return hands back an error that cannot be nil: made on the spot, or known non-nil by a test on
// the way. An error that is simply passed on (the answer of a last call) may be nil.
func definitelyFails(ret *ssa.Return) bool {
	rr := retResults(ret)
	if len(rr) == 0 || !isErrorType(rr[len(rr)-1].Type()) {
		return false
	}
	e := rr[len(rr)-1]
	if k, ok := e.(*ssa.Const); ok {
		return !k.IsNil()
	}
	if call, ok := e.(*ssa.Call); ok {
		switch calleeFullName(call) {
		case "fmt.Errorf", "errors.New":
			return true
		}
	}
	for _, g := range guardsOf(ret.Block()) {
		if x, isNil, ok := nilTestOf(g.Cond, g.Truth); ok && x == e && !isNil {
			return true
		}
	}
	return false
}
