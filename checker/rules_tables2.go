package main

import (
	"encoding/json"
	"go/constant"
	"go/token"
	"go/types"
	"math/big"
	"regexp"
	"regexp/syntax"
	"sort"
	"strings"

	"golang.org/x/tools/go/ssa"
)

func init() {
	register(&Rule{Name: "TAB-EXTOID", Floor: 15, Run: ruleTabExtOid,
		Doc: "the 13 extension OIDs equal RFC 5280/6960/Common PKI in enum order; every ExtensionConfig type's Oid() names the OID of its YAML key, and every constructor its Builder reaches stores that same OID"})
	register(&Rule{Name: "TAB-KU", Floor: 14, Run: ruleTabKU,
		Doc: "each of the 7 key-usage names ORs exactly the bit RFC 5280 4.2.1.3 assigns to it, and the schema admits exactly those names"})
	register(&Rule{Name: "TAB-EKU", Floor: 12, Run: ruleTabEKU,
		Doc: "each of the 6 extended-key-usage names resolves to its RFC 5280 4.2.1.12 OID"})
	register(&Rule{Name: "TAB-GN", Floor: 5, Run: ruleTabGN,
		Doc: "every label of every general-name label table (mail/dns/url/ip) produces the GeneralName kind whose marshal uses the RFC 5280 context tag 1/2/6/7; sibling tables agree"})
	register(&Rule{Name: "TAB-QUAL", Floor: 3, Run: ruleTabQual,
		Doc: "policy qualifier ids: cps -> id-qt-cps, userNotice -> id-qt-unotice; AIA access method ocsp -> id-ad-ocsp"})
	register(&Rule{Name: "TAB-RDN", Floor: 9, Run: ruleTabRDN,
		Doc: "the nine documented RDN short names map to their X.520 attribute OIDs"})
	register(&Rule{Name: "TAB-PEMTYPE", Floor: 3, Run: ruleTabPemType,
		Doc: "every PEM block type written is a type the reader dispatches on, and the three types are those of RFC 7468"})
	register(&Rule{Name: "TAB-HASHLINE", Floor: 5, Run: ruleTabHashLine,
		Doc: "the hash line writer (prefix + StdEncoding(HashSum) + newline) and reader (Index(prefix) … newline, StdEncoding.DecodeString) use the same prefix constant, encoding and terminator"})
	register(&Rule{Name: "TAB-SUFFIX", Floor: 4, Run: ruleTabSuffix,
		Doc: "configuration files are recognised by exactly the suffixes .yaml .yml .json on the lower-cased file name"})
}

// anyCaseLabel: nearest dominating `x == "const"` (string switch) with x non-constant.
func stringCaseLabel(b *ssa.BasicBlock) (string, ssa.Value, bool) {
	for _, g := range guardsOf(b) {
		bin, ok := g.Cond.(*ssa.BinOp)
		if !ok || bin.Op != token.EQL || !g.Truth {
			continue
		}
		if k, ok := bin.Y.(*ssa.Const); ok && k.Value != nil && k.Value.Kind() == constant.String {
			return constant.StringVal(k.Value), bin.X, true
		}
		if k, ok := bin.X.(*ssa.Const); ok && k.Value != nil && k.Value.Kind() == constant.String {
			return constant.StringVal(k.Value), bin.Y, true
		}
	}
	return "", nil, false
}

// extConfigIface returns the config.ExtensionConfig interface.
func (c *Ctx) extConfigIface() *types.Interface {
	n := c.NamedType("generator/config", "ExtensionConfig")
	if n == nil {
		return nil
	}
	i, _ := n.Underlying().(*types.Interface)
	return i
}

// extOidTable: the []ObjectIdentifier indexed by the function func(T) (ObjectIdentifier, bool) for module enum T.
func indexedOidTable(c *Ctx, ev *evaluator, paramTypeName string) (*ssa.Global, []string, *ssa.Function, string) {
	for _, fn := range c.Funcs {
		if fn.Parent() != nil || len(fn.Params) != 1 || !c.isModNamed(paramTypeName)(fn.Params[0].Type()) {
			continue
		}
		res := fn.Signature.Results()
		if res.Len() != 2 || !isOID(res.At(0).Type()) {
			continue
		}
		for _, b := range fn.Blocks {
			for _, ins := range b.Instrs {
				ia, ok := ins.(*ssa.IndexAddr)
				if !ok {
					continue
				}
				u, ok := ia.X.(*ssa.UnOp)
				if !ok {
					continue
				}
				g, ok := u.X.(*ssa.Global)
				if !ok || ia.Index != ssa.Value(fn.Params[0]) {
					if cv, isConv := ia.Index.(*ssa.Convert); !(ok && isConv && cv.X == ssa.Value(fn.Params[0])) {
						continue
					}
				}
				_, vals, why := tableOfGlobal(c, ev, g)
				if why != "" {
					return g, nil, fn, why
				}
				var out []string
				for _, v := range vals {
					if v.Kind != "ints" {
						return g, nil, fn, "non-literal OID in " + g.Name() + ": " + v.String()
					}
					out = append(out, oidString(v.Ints))
				}
				return g, out, fn, ""
			}
		}
	}
	return nil, nil, nil, "no func(" + paramTypeName + ") (ObjectIdentifier, bool) indexing a package-level table"
}

// idStoredBy lists the OIDs a function stores into pkix.Extension.Id (through literals or package-level values).
func idStoredBy(c *Ctx, ev *evaluator, fn *ssa.Function) []string {
	var out []string
	add := func(v ssa.Value) {
		if _, isParam := v.(*ssa.Parameter); isParam {
			return // a helper that builds an extension around an OID it is given: its callers name the OID
		}
		d := c.describe(ev, v, 0)
		if d.Kind == "ints" {
			out = append(out, oidString(d.Ints))
		} else {
			out = append(out, "?"+d.String())
		}
	}
	for _, b := range fn.Blocks {
		for _, ins := range b.Instrs {
			st, ok := ins.(*ssa.Store)
			if !ok {
				continue
			}
			fa, ok := st.Addr.(*ssa.FieldAddr)
			if !ok || fieldOfAddr(fa).Name() != "Id" || !typeIs(fa.X.Type().Underlying().(*types.Pointer).Elem(), "crypto/x509/pkix", "Extension") {
				continue
			}
			add(st.Val)
		}
	}
	// the Id of the extension value(s) the function returns, wherever the literal is built (helpers inlined)
	if returnsExtension(fn) {
		pv := c.provFor("idStoredBy")
		for _, ret := range returnsOf(fn) {
			rr := retResults(ret)
			if len(rr) == 0 {
				continue
			}
			for _, o := range pv.Origins(rr[0]) {
				if o == "K(nil)" {
					continue
				}
				for _, id := range fieldsOf([]string{o}, "Id") {
					if strings.HasPrefix(id, "G(") && strings.HasSuffix(id, ")") {
						if g := c.globalByOrigin(id); g != nil {
							d := ev.GlobalVal(g.Object())
							if d.Kind == "ints" {
								dup := false
								for _, x := range out {
									if x == oidString(d.Ints) {
										dup = true
									}
								}
								if !dup {
									out = append(out, oidString(d.Ints))
								}
							}
						}
					}
				}
			}
		}
	}
	// functions returning a package-level pkix.Extension value (ocspNoCheck idiom)
	for _, ret := range returnsOf(fn) {
		for _, res := range ret.Results {
			for _, pe := range phiEdges(res, ret.Block()) {
				if u, ok := pe.Val.(*ssa.UnOp); ok && u.Op == token.MUL {
					if g, ok := u.X.(*ssa.Global); ok && typeIs(g.Object().Type(), "crypto/x509/pkix", "Extension") {
						d := ev.GlobalVal(g.Object())
						if d.Kind == "struct" && d.Fields["Id"] != nil && d.Fields["Id"].Kind == "ints" {
							out = append(out, oidString(d.Fields["Id"].Ints))
						} else {
							out = append(out, "?"+d.String())
						}
					}
				}
			}
		}
	}
	return out
}

// staticCalleesDeep: module functions statically called from fn or its closures (one level of closures, depth 2 of calls).
func staticCalleesDeep(c *Ctx, fn *ssa.Function, depth int, seen map[*ssa.Function]bool) {
	if seen[fn] || depth < 0 {
		return
	}
	seen[fn] = true
	for _, an := range fn.AnonFuncs {
		staticCalleesDeep(c, an, depth, seen)
	}
	for _, ci := range callsIn(fn) {
		if f := ci.Common().StaticCallee(); f != nil && c.InModule(f) && f.Blocks != nil {
			staticCalleesDeep(c, f, depth-1, seen)
		}
	}
}

func ruleTabExtOid(c *Ctx, r *Rep) {
	ev := c.evaluator()
	g, table, getFn, why := indexedOidTable(c, ev, "ExtensionOid")
	if why != "" {
		r.Undecided("anchor:extension-oid-table", "", why)
		return
	}
	enum := c.NamedType("generator/cert", "ExtensionOid")
	consts := c.constsOf(enum)
	ref := refList("extensions")
	gpos := c.Pos(g.Pos())
	yamlOid := map[string]string{}
	for i, e := range ref {
		yamlOid[rs(e, "yaml")] = rs(e, "oid")
		found := ""
		if i < len(table) {
			found = table[i]
		}
		r.Check(found == rs(e, "oid"), "table|"+rs(e, "const"), gpos, sprintf("entry %d = %s (%s)", i, rs(e, "oid"), rs(e, "cite")), found)
		k := consts[rs(e, "const")]
		v := int64(-1)
		if k != nil {
			v, _ = constant.Int64Val(k.Val())
		}
		r.Check(v == int64(i), "enum-order|"+rs(e, "const"), gpos, sprintf("constant %s = %d", rs(e, "const"), i), sprintf("%d", v))
	}
	r.Check(len(table) == len(ref), "table-length", gpos, sprintf("%d entries", len(ref)), sprintf("%d", len(table)))
	lookupTotal(c, ev, r, getFn, len(table), func(k int) string {
		if k < len(ref) {
			return rs(ref[k], "const")
		}
		return sprintf("%d", k)
	})

	// per ExtensionConfig implementation
	iface := c.extConfigIface()
	if iface == nil {
		r.Undecided("anchor:ExtensionConfig", "", "interface not found")
		return
	}
	anyExt := c.NamedType("generator/config/v1", "AnyExtension")
	if anyExt == nil {
		r.Undecided("anchor:AnyExtension", "", "type not found")
		return
	}
	st := anyExt.Underlying().(*types.Struct)
	yamlOf := map[string]string{} // type name -> yaml key
	for i := 0; i < st.NumFields(); i++ {
		if p, ok := st.Field(i).Type().(*types.Pointer); ok {
			if n, ok := p.Elem().(*types.Named); ok {
				yamlOf[n.Obj().Name()] = jsonName(st.Tag(i), st.Field(i).Name())
			}
		}
	}
	nImpl := 0
	for _, t := range c.implementations(iface) {
		n, ok := t.(*types.Named)
		if !ok || !strings.HasSuffix(n.Obj().Pkg().Path(), "config/v1") {
			continue
		}
		yaml, inAny := yamlOf[n.Obj().Name()]
		if !inAny {
			continue
		}
		nImpl++
		oidFn := c.methodOf(t, "Oid")
		key := n.Obj().Name()
		if yaml == "custom" {
			r.Ok("oid-dynamic|"+key, c.FnPos(oidFn), "custom extension: OID taken from the configuration", "dynamic")
			continue
		}
		want := yamlOid[yaml]
		if want == "" {
			r.Bad("yaml-known|"+key, c.FnPos(oidFn), "a reference entry for YAML key "+yaml, "none")
			continue
		}
		// Oid(): return <lookup>(const k)
		got := ""
		for _, ret := range returnsOf(oidFn) {
			if call, ok := retResults(ret)[0].(*ssa.Call); ok && len(call.Call.Args) == 1 {
				if k, ok := call.Call.Args[0].(*ssa.Const); ok && c.isModNamed("ExtensionOid")(k.Type()) {
					if i := int(k.Int64()); i >= 0 && i < len(table) {
						got = table[i]
						// the callee must be the lookup (or a wrapper that calls it with its parameter)
						if f := call.Call.StaticCallee(); f == nil || !(f == getFn || passesParamTo(f, getFn)) {
							got = "?call to " + call.Call.String()
						}
					}
				}
			}
		}
		r.Check(got == want, "oid-method|"+key, c.FnPos(oidFn), yaml+" -> "+want, got)
		// constructors reached from Builder
		bfn := c.methodOf(t, "Builder")
		seen := map[*ssa.Function]bool{}
		staticCalleesDeep(c, bfn, 2, seen)
		ids := map[string]bool{}
		for f := range seen {
			if !strings.HasSuffix(fnPkgPath(f), "generator/cert") {
				continue
			}
			for _, id := range idStoredBy(c, ev, f) {
				ids[id] = true
			}
		}
		if len(ids) == 0 {
			r.Bad("constructor-id|"+key, c.FnPos(bfn), "Builder reaches a constructor storing "+want, "no constructor reached")
			continue
		}
		r.Check(len(ids) == 1 && ids[want], "constructor-id|"+key, c.FnPos(bfn), "every constructor reached stores Id "+want, fmtSet(ids))
	}
	if nImpl < 11 {
		r.Undecided("floor:implementations", "", sprintf("%d ExtensionConfig implementations wired into AnyExtension, expected 11", nImpl))
	}
}

// passesParamTo: f's body calls target with f's first parameter as the argument.
func passesParamTo(f, target *ssa.Function) bool {
	if f.Blocks == nil || len(f.Params) == 0 {
		return false
	}
	for _, ci := range callsIn(f) {
		if ci.Common().StaticCallee() == target && len(ci.Common().Args) == 1 && ci.Common().Args[0] == ssa.Value(f.Params[0]) {
			return true
		}
	}
	return false
}

func jsonName(tag, field string) string {
	v := reflectTagGet(tag, "json")
	if v == "" {
		return field
	}
	name := strings.Split(v, ",")[0]
	if name == "" {
		return field
	}
	return name
}

// reflectTagGet implements reflect.StructTag.Lookup semantics.
func reflectTagGet(tag, key string) string {
	for tag != "" {
		i := 0
		for i < len(tag) && tag[i] == ' ' {
			i++
		}
		tag = tag[i:]
		if tag == "" {
			break
		}
		i = 0
		for i < len(tag) && tag[i] > ' ' && tag[i] != ':' && tag[i] != '"' && tag[i] != 0x7f {
			i++
		}
		if i == 0 || i+1 >= len(tag) || tag[i] != ':' || tag[i+1] != '"' {
			break
		}
		name := tag[:i]
		tag = tag[i+1:]
		i = 1
		for i < len(tag) && tag[i] != '"' {
			if tag[i] == '\\' {
				i++
			}
			i++
		}
		if i >= len(tag) {
			break
		}
		qvalue := tag[:i+1]
		tag = tag[i+1:]
		if key == name {
			var s string
			if err := json.Unmarshal([]byte(qvalue), &s); err != nil {
				return ""
			}
			return s
		}
	}
	return ""
}

func ruleTabKU(c *Ctx, r *Rep) {
	// rows: (string case label, OR'ed constant of a module named type) per function
	type row struct {
		label string
		mask  int64
		pos   token.Pos
	}
	byFn := map[*ssa.Function][]row{}
	for _, fn := range c.Funcs {
		for _, b := range fn.Blocks {
			for _, ins := range b.Instrs {
				bin, ok := ins.(*ssa.BinOp)
				if !ok || bin.Op != token.OR {
					continue
				}
				k, ok := bin.Y.(*ssa.Const)
				if !ok {
					k, ok = bin.X.(*ssa.Const)
				}
				if !ok {
					continue
				}
				n, isNamed := k.Type().(*types.Named)
				if !isNamed || !c.IsModObj(n.Obj()) {
					continue
				}
				if label, _, ok := stringCaseLabel(b); ok {
					byFn[fn] = append(byFn[fn], row{label, k.Int64(), bin.Pos()})
				}
			}
		}
	}
	// the same table written as a function from the label to the flag: constants returned under string case labels
	if kuT := c.NamedType("generator/cert", "KeyUsage"); kuT != nil {
		for _, fn := range c.Funcs {
			if len(byFn[fn]) > 0 {
				continue
			}
			res := fn.Signature.Results()
			if res.Len() == 0 || !types.Identical(res.At(0).Type(), kuT) {
				continue
			}
			for _, ret := range returnsOf(fn) {
				for _, pe := range phiEdges(retResults(ret)[0], ret.Block()) {
					k, ok := pe.Val.(*ssa.Const)
					if !ok || k.Value == nil {
						continue
					}
					from := pe.From
					if from == nil {
						from = ret.Block()
					}
					if label, _, ok := stringCaseLabel(from); ok {
						byFn[fn] = append(byFn[fn], row{label, k.Int64(), ret.Pos()})
					}
				}
			}
		}
		// or as a package-level map from the label to the flag
		if len(byFn) == 0 {
			ev := c.evaluator()
			for _, g := range c.globalsOfType(func(t types.Type) bool {
				return isMapOf(t, isString, func(e types.Type) bool { return types.Identical(e, kuT) })
			}) {
				ks, vs, why := tableOfGlobal(c, ev, g)
				if why != "" {
					continue
				}
				var rows []row
				for i := range ks {
					l, ok1 := ks[i].Str()
					m, ok2 := vs[i].Int()
					if ok1 && ok2 {
						rows = append(rows, row{l, m, g.Pos()})
					}
				}
				if len(rows) >= 5 {
					// attribute the table to the function that looks it up
					for _, fn := range c.Funcs {
						for _, b := range fn.Blocks {
							for _, ins := range b.Instrs {
								if lk, ok := ins.(*ssa.Lookup); ok && loadedGlobal(lk.X) == g {
									byFn[fn] = rows
								}
							}
						}
					}
				}
			}
		}
	}
	// or as a helper from the name to the flag in whatever way (an ordered list of names and a shift, a search loop):
	// the helper is folded for every name of the schema and of the reference table
	if kuT := c.NamedType("generator/cert", "KeyUsage"); kuT != nil && len(byFn) == 0 {
		names := map[string]bool{}
		for _, e := range refList("keyusage") {
			names[rs(e, "name")] = true
		}
		if enum, why := schemaEnum(c, "extension.json", "properties", "keyUsage", "properties", "content", "items", "enum"); why == "" {
			for _, e := range enum {
				names[e] = true
			}
		}
		for _, fn := range c.Funcs {
			res := fn.Signature.Results()
			if fn.Blocks == nil || len(fn.Params) != 1 || !isString(fn.Params[0].Type()) || res.Len() == 0 || res.Len() > 2 || !types.Identical(res.At(0).Type(), kuT) {
				continue
			}
			// its answer is ORed into the flags somewhere
			used := false
			for _, caller := range c.Funcs {
				for _, ci := range callsIn(caller) {
					if ci.Common().StaticCallee() != fn || ci.Value() == nil {
						continue
					}
					for _, ref := range *ci.Value().Referrers() {
						v := ssa.Value(nil)
						if ex, ok := ref.(*ssa.Extract); ok && ex.Index == 0 {
							v = ex
						} else if bo, ok := ref.(*ssa.BinOp); ok {
							v = bo
						}
						if v == nil {
							continue
						}
						if bo, ok := v.(*ssa.BinOp); ok && bo.Op == token.OR {
							used = true
						}
						if v.Referrers() != nil {
							for _, r2 := range *v.Referrers() {
								if bo, ok := r2.(*ssa.BinOp); ok && bo.Op == token.OR {
									used = true
								}
							}
						}
					}
				}
			}
			if !used {
				continue
			}
			var rows []row
			for name := range names {
				fo := c.newFolder()
				out, ok := fo.Fold(fn, []*fval{fconst(constant.MakeString(name))}, 0)
				if !ok {
					r.Undecided("shape:key-usage-helper|"+c.FuncKey(fn), c.FnPos(fn), "the helper from a name to a flag cannot be folded for "+name+": "+fo.why)
					return
				}
				if len(out) == 2 && out[1].k != nil && out[1].k.Kind() == constant.Bool && !constant.BoolVal(out[1].k) {
					continue // not a name the helper knows
				}
				if out[0].k == nil {
					continue
				}
				m, _ := constant.Int64Val(out[0].k)
				rows = append(rows, row{name, m, fn.Pos()})
			}
			sort.Slice(rows, func(i, j int) bool { return rows[i].label < rows[j].label })
			byFn[fn] = rows
		}
	}
	var fn *ssa.Function
	for f, rows := range byFn {
		if len(rows) >= 5 {
			if fn != nil {
				r.Undecided("anchor:key-usage-table", "", "more than one function ORs flag constants under string labels")
				return
			}
			fn = f
		}
	}
	if fn == nil {
		r.Undecided("anchor:key-usage-table", "", "no function ORs flag constants under string case labels")
		return
	}
	got := map[string][]int64{}
	for _, rw := range byFn[fn] {
		got[rw.label] = append(got[rw.label], rw.mask)
	}
	pos := c.FnPos(fn)
	for _, e := range refList("keyusage") {
		name := rs(e, "name")
		masks := got[name]
		r.Check(len(masks) == 1 && masks[0] == int64(ri(e, "mask")), "mask|"+name, pos, sprintf("bit %d = mask %d (%s)", ri(e, "bit"), ri(e, "mask"), rs(e, "cite")), sprintf("%v", masks))
	}
	for l := range got {
		known := false
		for _, e := range refList("keyusage") {
			if rs(e, "name") == l {
				known = true
			}
		}
		if !known {
			r.Infof("additional key usage label %q", l)
		}
	}
	enum, why := schemaEnum(c, "extension.json", "properties", "keyUsage", "properties", "content", "items", "enum")
	if why != "" {
		r.Undecided("anchor:schema-enum", "", why)
		return
	}
	for _, e := range enum {
		_, ok := got[e]
		r.Check(ok, "enum-has-case|"+e, pos, "every schema enum value has a case", sprintf("%v", ok))
	}
	// the constructor keeps exactly the flag bits: content byte = flags & 0xFE (bit 0 is not a named bit of the 7 handled)
	for _, f := range c.Funcs {
		for _, id := range idStoredBy(c, c.evaluator(), f) {
			if id != "2.5.29.15" || !strings.HasSuffix(f.Pkg.Pkg.Path(), "generator/cert") {
				continue
			}
			ok := false
			for _, b := range f.Blocks {
				for _, ins := range b.Instrs {
					if bin, isBin := ins.(*ssa.BinOp); isBin && bin.Op == token.AND {
						if k, isK := bin.Y.(*ssa.Const); isK && k.Int64() == 0xFE && bin.X == ssa.Value(flagsParam(f)) {
							ok = true
						}
					}
				}
			}
			r.Check(ok, "constructor-mask|"+c.FuncKey(f), c.FnPos(f), "BIT STRING content = flags & 0xFE (all seven named bits kept)", sprintf("%v", ok))
		}
	}
}

func flagsParam(f *ssa.Function) *ssa.Parameter {
	for _, p := range f.Params {
		if n, ok := p.Type().(*types.Named); ok && n.Obj().Name() == "KeyUsage" {
			return p
		}
	}
	return nil
}

func ruleTabEKU(c *Ctx, r *Rep) {
	ev := c.evaluator()
	_, table, getFn, why := indexedOidTable(c, ev, "ExtKeyUsage")
	if why != "" {
		r.Undecided("anchor:eku-table", "", why)
		return
	}
	lookupTotal(c, ev, r, getFn, len(table), func(k int) string { return sprintf("eku-%d", k) })
	// rows: string label -> constant index passed to the lookup
	rows := map[string][]int64{}
	var tabFn *ssa.Function
	for _, fn := range c.Funcs {
		for _, ci := range callsIn(fn) {
			if ci.Common().StaticCallee() != getFn {
				continue
			}
			k, ok := ci.Common().Args[0].(*ssa.Const)
			if !ok {
				continue
			}
			if label, _, ok := stringCaseLabel(ci.Block()); ok {
				rows[label] = append(rows[label], k.Int64())
				tabFn = fn
			}
		}
	}
	enums, whyEnum := schemaEnumAnyOf(c, "extension.json", []string{"properties", "extendedKeyUsage", "properties", "content", "items", "anyOf"})
	folded := map[string]string{}
	if tabFn == nil {
		// the names are not case labels: the function from a name to its OID that uses the lookup (through a map of
		// names, a table of entries) is folded for every name of the reference table and of the schema
		for _, fn := range c.Funcs {
			res := fn.Signature.Results()
			if fn.Blocks == nil || len(fn.Params) != 1 || !isString(fn.Params[0].Type()) || res.Len() != 2 || !isOID(res.At(0).Type()) {
				continue
			}
			uses := false
			for _, ci := range callsIn(fn) {
				if ci.Common().StaticCallee() == getFn {
					uses = true
				}
			}
			if uses {
				tabFn = fn
			}
		}
		if tabFn == nil {
			r.Undecided("anchor:eku-names", "", "no function maps string labels to extended key usage constants")
			return
		}
		var names []string
		for _, e := range refList("eku") {
			names = append(names, rs(e, "name"))
		}
		names = append(names, enums...)
		for _, name := range uniq(names) {
			fo := c.newFolder()
			out, ok := fo.Fold(tabFn, []*fval{fconst(constant.MakeString(name))}, 0)
			if !ok {
				r.Undecided("shape:eku-names|"+c.FuncKey(tabFn), c.FnPos(tabFn), "the function from a name to its OID cannot be folded for "+name+": "+fo.why)
				return
			}
			if len(out) == 2 && out[1].isNil && out[0].isList {
				var ints []int
				for _, e := range out[0].list {
					n, _ := constant.Int64Val(e.k)
					ints = append(ints, int(n))
				}
				folded[name] = oidString(ints)
				rows[name] = []int64{-1}
			}
		}
	}
	pos := c.FnPos(tabFn)
	for _, e := range refList("eku") {
		name := rs(e, "name")
		ix := rows[name]
		got := folded[name]
		if len(ix) == 1 && int(ix[0]) < len(table) && ix[0] >= 0 {
			got = table[ix[0]]
		}
		r.Check(got == rs(e, "oid"), "oid|"+name, pos, rs(e, "oid")+" ("+rs(e, "cite")+")", sprintf("%v -> %s", ix, got))
	}
	if why := whyEnum; why != "" {
		r.Undecided("anchor:schema-enum", "", why)
		return
	}
	for _, e := range enums {
		_, ok := rows[e]
		r.Check(ok, "enum-has-case|"+e, pos, "every schema enum value has a case", sprintf("%v", ok))
	}
}

func schemaEnumAnyOf(c *Ctx, file string, path []string) ([]string, string) {
	b, _, err := c.EmbeddedFile("generator/config/v1", file)
	if err != nil {
		return nil, err.Error()
	}
	var cur any
	if err := json.Unmarshal(b, &cur); err != nil {
		return nil, err.Error()
	}
	for _, p := range path {
		m, ok := cur.(map[string]any)
		if !ok {
			return nil, "schema path not found"
		}
		cur = m[p]
	}
	list, ok := cur.([]any)
	if !ok {
		return nil, "no anyOf list"
	}
	var out []string
	for _, alt := range list {
		if m, ok := alt.(map[string]any); ok {
			if en, ok := m["enum"].([]any); ok {
				for _, x := range en {
					if s, ok := x.(string); ok {
						out = append(out, s)
					}
				}
			}
		}
	}
	return out, ""
}

// marshalTag finds the context tag a GeneralName kind's marshal method writes.
func marshalTag(c *Ctx, t types.Type) (tag int64, class int64, ok bool) {
	fn := c.methodOf(t, "marshal")
	if fn == nil || fn.Blocks == nil {
		return 0, 0, false
	}
	tag, class = -1, -1
	// the stores into a RawValue in f; a stored parameter stands for the argument handed in at the call
	scan := func(f *ssa.Function, args []ssa.Value) {
		for _, b := range f.Blocks {
			for _, ins := range b.Instrs {
				st, isSt := ins.(*ssa.Store)
				if !isSt {
					continue
				}
				fa, isFa := st.Addr.(*ssa.FieldAddr)
				if !isFa || !typeIs(fa.X.Type().Underlying().(*types.Pointer).Elem(), "encoding/asn1", "RawValue") {
					continue
				}
				val := st.Val
				if prm, isP := val.(*ssa.Parameter); isP && args != nil {
					for i, fp := range f.Params {
						if fp == prm && i < len(args) {
							val = args[i]
						}
					}
				}
				k, isK := val.(*ssa.Const)
				if !isK || k.Value == nil {
					continue
				}
				switch fieldOfAddr(fa).Name() {
				case "Tag":
					tag = k.Int64()
				case "Class":
					class = k.Int64()
				}
			}
		}
	}
	scan(fn, nil)
	if tag < 0 {
		// the value is built by a helper of the package that takes the tag
		for _, ci := range callsIn(fn) {
			if h := ci.Common().StaticCallee(); h != nil && h.Blocks != nil && c.InModule(h) && !hasLoop(h) {
				scan(h, ci.Common().Args)
			}
		}
	}
	return tag, class, tag >= 0
}

func ruleTabGN(c *Ctx, r *Rep) {
	// GeneralName kinds: module named types with a marshal method, produced under a string case label
	type row struct {
		label string
		typ   *types.Named
		pos   token.Pos
	}
	byFn := map[*ssa.Function][]row{}
	for _, fn := range c.Funcs {
		for _, b := range fn.Blocks {
			for _, ins := range b.Instrs {
				mi, ok := ins.(*ssa.MakeInterface)
				if !ok {
					continue
				}
				n, ok := mi.X.Type().(*types.Named)
				if !ok || !c.IsModObj(n.Obj()) || c.methodOf(n, "marshal") == nil {
					continue
				}
				if _, _, isGN := marshalTag(c, n); !isGN {
					continue
				}
				// label of the block where the value is made, or where it flows (stores/returns in labelled blocks)
				if label, _, ok := stringCaseLabel(b); ok {
					byFn[fn] = append(byFn[fn], row{label, n, mi.Pos()})
				}
			}
		}
	}
	for _, t := range c.gnMapTables() {
		var labels []string
		for l := range t.rows {
			labels = append(labels, l)
		}
		sort.Strings(labels)
		for _, l := range labels {
			byFn[t.fn] = append(byFn[t.fn], row{l, t.rows[l], t.pos})
		}
	}
	want := map[string]int{}
	for _, e := range refList("generalnames") {
		want[rs(e, "label")] = ri(e, "tag")
	}
	var fns []*ssa.Function
	for f := range byFn {
		fns = append(fns, f)
	}
	sort.Slice(fns, func(i, j int) bool { return c.FuncKey(fns[i]) < c.FuncKey(fns[j]) })
	if len(fns) < 1 {
		r.Undecided("floor:label-tables", "", sprintf("%d general-name label tables found, expected at least 1 (subjectAlternativeName and admission authorities may share one)", len(fns)))
	}
	agree := map[string]map[string]bool{}
	for _, f := range fns {
		seen := map[string]bool{}
		for _, rw := range byFn[f] {
			tag, class, _ := marshalTag(c, rw.typ)
			key := c.FuncKey(f) + "|" + rw.label
			wt, known := want[rw.label]
			if !known {
				r.Infof("%s: additional general-name label %q", c.FuncKey(f), rw.label)
				continue
			}
			seen[rw.label] = true
			r.Check(int(tag) == wt && class == 2, "tag|"+key, c.Pos(rw.pos), sprintf("context tag [%d] (RFC 5280 4.2.1.6)", wt), sprintf("%s with class %d tag %d", rw.typ.Obj().Name(), class, tag))
			if agree[rw.label] == nil {
				agree[rw.label] = map[string]bool{}
			}
			agree[rw.label][rw.typ.Obj().Name()] = true
		}
		// the table must at least know dns/mail/ip (property C07: SAN lists over mail, dns, ip)
		for _, l := range []string{"mail", "dns", "ip"} {
			r.Check(seen[l], "label-handled|"+c.FuncKey(f)+"|"+l, c.FnPos(f), "label "+l+" produces a general name", sprintf("%v", seen[l]))
		}
	}
	for l, ts := range agree {
		r.Check(len(ts) == 1, "siblings-agree|"+l, "", "all label tables produce the same kind for "+l, fmtSet(ts))
	}
	// the marshal methods themselves: primitive context-specific, content = the value's bytes
	gn := c.NamedType("generator/cert", "GeneralName")
	if gn != nil {
		iface := gn.Underlying().(*types.Interface)
		for _, t := range c.implementations(iface) {
			n, ok := t.(*types.Named)
			if !ok {
				continue
			}
			if _, isStruct := n.Underlying().(*types.Struct); isStruct {
				continue // Admission, Admissions, ProfessionInfo have a marshal method but are not name kinds
			}
			if tag, class, isGN := marshalTag(c, n); isGN {
				okTag := false
				for _, wt := range want {
					if int(tag) == wt {
						okTag = true
					}
				}
				r.Check(okTag && class == 2, "kind|"+n.Obj().Name(), c.FnPos(c.methodOf(n, "marshal")), "context-specific tag in {1,2,6,7}", sprintf("class %d tag %d", class, tag))
			}
		}
	}
}

func ruleTabQual(c *Ctx, r *Rep) {
	ev := c.evaluator()
	want := map[string]string{}
	for _, e := range refList("qualifiers") {
		want[rs(e, "name")] = rs(e, "oid")
	}
	n := 0
	for _, fn := range c.Funcs {
		for _, b := range fn.Blocks {
			var qid string
			var qpos token.Pos
			stores := map[string]bool{}
			for _, ins := range b.Instrs {
				st, ok := ins.(*ssa.Store)
				if !ok {
					continue
				}
				fa, ok := st.Addr.(*ssa.FieldAddr)
				if !ok {
					continue
				}
				// a nested literal stores through a chain of field addresses: take the link that leaves the qualifier
				for !strings.HasSuffix(ownerName(c, fa.X.Type()), "PolicyQualifier") {
					up, ok := fa.X.(*ssa.FieldAddr)
					if !ok {
						break
					}
					fa = up
				}
				owner := ownerName(c, fa.X.Type())
				if !strings.HasSuffix(owner, "PolicyQualifier") {
					continue
				}
				name := fieldOfAddr(fa).Name()
				stores[name] = true
				if name == "QualifierId" {
					d := c.describe(ev, st.Val, 0)
					qid = d.String()
					qpos = st.Pos()
				}
			}
			if qid == "" {
				continue
			}
			n++
			switch {
			case stores["Cps"] && !stores["UserNotice"]:
				r.Check(qid == want["cps"], "qualifier|cps|"+c.FuncKey(fn), c.Pos(qpos), "id-qt-cps "+want["cps"], qid)
			case stores["UserNotice"] && !stores["Cps"]:
				r.Check(qid == want["userNotice"], "qualifier|userNotice|"+c.FuncKey(fn), c.Pos(qpos), "id-qt-unotice "+want["userNotice"], qid)
			default:
				r.Undecided("shape:qualifier|"+c.FuncKey(fn), c.Pos(qpos), "qualifier id stored without exactly one of Cps / UserNotice in the same block")
			}
		}
	}
	if n < 2 {
		r.Undecided("floor:qualifier-stores", "", sprintf("%d qualifier id stores found, expected 2", n))
	}
	// AIA: the OID marshalled under the case label of the access method constant
	am := c.NamedType("generator/cert", "AccessMethod")
	found := false
	for _, fn := range c.Funcs {
		for _, ci := range callsIn(fn) {
			if calleeFullName(ci) != "encoding/asn1.Marshal" {
				continue
			}
			d := c.describe(ev, unwrapIface(ci.Common().Args[0]), 0)
			if d.Kind != "ints" || !strings.HasPrefix(oidString(d.Ints), "1.3.6.1.5.5.7.48") {
				continue
			}
			k, ok := caseLabel(ci.Block(), func(v ssa.Value) bool { return am != nil && types.Identical(v.Type(), am) })
			if !ok {
				// the encoding was taken out of the loop: the label is where its bytes are written
				if call, isCall := ci.(*ssa.Call); isCall {
					for _, ref := range *call.Referrers() {
						ex, isEx := ref.(*ssa.Extract)
						if !isEx || ex.Index != 0 {
							continue
						}
						for _, use := range *ex.Referrers() {
							if uc, isUse := use.(ssa.CallInstruction); isUse {
								if k2, ok2 := caseLabel(uc.Block(), func(v ssa.Value) bool { return am != nil && types.Identical(v.Type(), am) }); ok2 {
									k, ok = k2, true
								}
							}
						}
					}
				}
			}
			name := ""
			if ok {
				name = c.constName(am, k.Value)
			}
			for _, e := range refList("accessmethods") {
				if strings.EqualFold(strings.TrimPrefix(name, "cert."), rs(e, "name")) {
					found = true
					r.Check(oidString(d.Ints) == rs(e, "oid"), "access-method|"+rs(e, "name"), c.Pos(ci.Pos()), rs(e, "oid")+" ("+rs(e, "cite")+")", oidString(d.Ints))
				}
			}
		}
	}
	// the same table as a function from the access method to its OID: constants returned under case labels; the
	// result must then be what is marshalled
	if !found && am != nil {
		for _, fn := range c.Funcs {
			if fn.Signature.Results().Len() == 0 || !isOID(fn.Signature.Results().At(0).Type()) {
				continue
			}
			hasParam := false
			for _, p := range fn.Params {
				if types.Identical(p.Type(), am) {
					hasParam = true
				}
			}
			if !hasParam {
				continue
			}
			for _, ret := range returnsOf(fn) {
				for _, pe := range phiEdges(retResults(ret)[0], ret.Block()) {
					d := c.describe(ev, pe.Val, 0)
					if d.Kind != "ints" {
						continue
					}
					from := pe.From
					if from == nil {
						from = ret.Block()
					}
					k, ok := caseLabel(from, func(v ssa.Value) bool { return types.Identical(v.Type(), am) })
					if !ok {
						continue
					}
					name := c.constName(am, k.Value)
					// marshalled by a caller?
					marshalled := false
					for _, caller := range c.Funcs {
						for _, ci := range callsIn(caller) {
							if calleeFullName(ci) != "encoding/asn1.Marshal" {
								continue
							}
							arg := unwrapIface(ci.Common().Args[0])
							if ex, isEx := arg.(*ssa.Extract); isEx {
								arg = ex.Tuple
							}
							if call, isCall := arg.(*ssa.Call); isCall && call.Call.StaticCallee() == fn {
								marshalled = true
							}
						}
					}
					for _, e := range refList("accessmethods") {
						if strings.EqualFold(strings.TrimPrefix(name, "cert."), rs(e, "name")) {
							found = true
							r.Check(oidString(d.Ints) == rs(e, "oid") && marshalled, "access-method|"+rs(e, "name"), c.Pos(ret.Pos()), rs(e, "oid")+" ("+rs(e, "cite")+"), marshalled by the caller", sprintf("%s, marshalled: %v", oidString(d.Ints), marshalled))
						}
					}
				}
			}
		}
	}
	if !found {
		r.Undecided("anchor:access-method", "", "no OID under id-ad marshalled under an access-method case label")
	}
}

func ruleTabRDN(c *Ctx, r *Rep) {
	ev := c.evaluator()
	var g *ssa.Global
	for _, x := range c.globalsOfType(func(t types.Type) bool { return isMapOf(t, isString, isOID) }) {
		if strings.HasSuffix(x.Pkg.Pkg.Path(), "generator/config") {
			if g != nil {
				r.Undecided("anchor:attributeTypeNames", "", "more than one map[string]ObjectIdentifier in config")
				return
			}
			g = x
		}
	}
	got := map[string]string{}
	tablePos := ""
	if g == nil {
		// no such map: the lookup function from a short name to its OID is folded for every name of the reference table
		// and of the schema (a table of structs with a search, a switch, ...)
		lookup := c.rdnLookupFunc()
		if lookup == nil {
			r.Undecided("anchor:attributeTypeNames", "", "no map[string]ObjectIdentifier in config and no func(string) (ObjectIdentifier, error) to fold")
			return
		}
		var names []string
		for _, e := range refList("rdn") {
			names = append(names, rs(e, "name"))
		}
		if renum, why := schemaEnum(c, "rdn-attribute.json", "enum"); why == "" {
			names = append(names, renum...)
		}
		for _, name := range uniq(names) {
			fo := c.newFolder()
			out, ok := fo.Fold(lookup, []*fval{fconst(constant.MakeString(name))}, 0)
			if !ok {
				r.Undecided("shape:rdn-lookup|"+c.FuncKey(lookup), c.FnPos(lookup), "the lookup cannot be folded for "+name+": "+fo.why)
				return
			}
			if len(out) == 2 && out[1].isNil && out[0].isList {
				var ints []int
				for _, e := range out[0].list {
					n, _ := constant.Int64Val(e.k)
					ints = append(ints, int(n))
				}
				got[name] = oidString(ints)
			}
		}
		tablePos = c.FnPos(lookup)
	} else {
		ks, vs, why := tableOfGlobal(c, ev, g)
		if why != "" {
			r.Undecided("shape:"+g.Name(), c.Pos(g.Pos()), why)
			return
		}
		for i := range ks {
			k, ok := ks[i].Str()
			if !ok || vs[i].Kind != "ints" {
				r.Undecided("shape:"+g.Name(), c.Pos(g.Pos()), "non-literal entry")
				return
			}
			got[k] = oidString(vs[i].Ints)
		}
		tablePos = c.Pos(g.Pos())
	}
	for _, e := range refList("rdn") {
		r.Check(got[rs(e, "name")] == rs(e, "oid"), "attribute|"+rs(e, "name"), tablePos, rs(e, "oid")+" ("+rs(e, "cite")+")", got[rs(e, "name")])
	}
	for k := range got {
		known := false
		for _, e := range refList("rdn") {
			if rs(e, "name") == k {
				known = true
			}
		}
		if !known {
			r.Infof("additional attribute short name %q", k)
		}
	}
	// the validator judges an RDN by its first attribute: then every RDN the module builds has exactly one
	isSet := func(t types.Type) bool { return typeIs(t, "crypto/x509/pkix", "RelativeDistinguishedNameSET") }
	firstOnly := ""
	if v := c.Func("generator/config", "Validate"); v != nil {
		for _, b := range v.Blocks {
			for _, ins := range b.Instrs {
				if ia, ok := ins.(*ssa.IndexAddr); ok && isSet(ia.X.Type()) {
					if k, isK := ia.Index.(*ssa.Const); isK && k.Int64() == 0 {
						firstOnly = c.Pos(ia.Pos())
					}
				}
			}
		}
	}
	if firstOnly != "" {
		n := 0
		for _, fn := range c.Funcs {
			for _, b := range fn.Blocks {
				for _, ins := range b.Instrs {
					switch x := ins.(type) {
					case *ssa.Slice:
						if !isSet(x.Type()) {
							continue
						}
						n++
						size := int64(-1)
						if al, ok := x.X.(*ssa.Alloc); ok {
							if arr, ok := al.Type().Underlying().(*types.Pointer).Elem().Underlying().(*types.Array); ok && x.Low == nil && x.High == nil {
								size = arr.Len()
							}
						}
						r.Check(size == 1, sprintf("rdn-singleton|%s#%d", c.FuncKey(fn), n), c.Pos(x.Pos()), "an RDN with exactly one attribute (the validator at "+firstOnly+" looks at the first one only)", sprintf("%d attributes", size))
					case *ssa.MakeSlice:
						if isSet(x.Type()) {
							n++
							r.Bad(sprintf("rdn-singleton|%s#%d", c.FuncKey(fn), n), c.Pos(x.Pos()), "an RDN with exactly one attribute", "made with a computed length")
						}
					case *ssa.Call:
						if bi, ok := x.Call.Value.(*ssa.Builtin); ok && bi.Name() == "append" && isSet(x.Type()) {
							n++
							r.Bad(sprintf("rdn-singleton|%s#%d", c.FuncKey(fn), n), c.Pos(x.Pos()), "an RDN with exactly one attribute", "attributes are appended to an RDN")
						}
					}
				}
			}
		}
		if n == 0 {
			r.Undecided("floor:rdn-literals", "", "no RDN is built anywhere in the module")
		}
	}
}

func ruleTabPemType(c *Ctx, r *Rep) {
	// writers: constant PEM block types (directly, or handed to a block-writing helper)
	written := map[string]token.Pos{}
	pw, unres := c.pemWrites()
	for _, u := range unres {
		r.Undecided("shape:pem-type|"+u, "", "non-constant PEM block type")
	}
	for _, w := range pw {
		written[w.typ] = w.pos
	}
	// reader: function calling pem.Decode; equality labels and strings.Contains substrings on the block type
	var eq, contains []string
	var reader *ssa.Function
	var readerFns []*ssa.Function
	for fn := range c.funcsCalling("encoding/pem.Decode") {
		reader = fn
		// the dispatch on the block type may sit in helpers the reader calls
		readerFns = append(readerFns, fn)
		for _, ci := range callsIn(fn) {
			if g := ci.Common().StaticCallee(); g != nil && c.InModule(g) && g.Blocks != nil && g.Pkg == fn.Pkg {
				readerFns = append(readerFns, g)
			}
		}
	}
	for _, fn := range readerFns {
		for _, b := range fn.Blocks {
			for _, ins := range b.Instrs {
				switch x := ins.(type) {
				case *ssa.BinOp:
					if x.Op == token.EQL {
						if k, ok := x.Y.(*ssa.Const); ok && k.Value != nil && k.Value.Kind() == constant.String && isPemTypeLoad(x.X) {
							eq = append(eq, constant.StringVal(k.Value))
						}
					}
				case *ssa.Call:
					if calleeFullName(x) == "strings.Contains" && isPemTypeLoad(x.Call.Args[0]) {
						if k, ok := x.Call.Args[1].(*ssa.Const); ok && k.Value != nil {
							contains = append(contains, constant.StringVal(k.Value))
						}
					}
				}
			}
		}
	}
	if reader == nil {
		r.Undecided("anchor:pem-reader", "", "no function calls pem.Decode")
		return
	}
	for _, e := range refList("pemtypes") {
		t := rs(e, "type")
		pos, ok := written[t]
		r.Check(ok, "written|"+t, c.Pos(pos), "a writer emits block type "+t+" ("+rs(e, "cite")+")", sprintf("%v", ok))
	}
	for t, pos := range written {
		rec := false
		for _, e := range eq {
			if e == t {
				rec = true
			}
		}
		for _, s := range contains {
			if strings.Contains(t, s) {
				rec = true
			}
		}
		r.Check(rec, "read-back|"+t, c.Pos(pos), "reader "+c.FuncKey(reader)+" dispatches on this type", sprintf("equal %v / contains %v", eq, contains))
	}
}

func isPemTypeLoad(v ssa.Value) bool {
	u, ok := v.(*ssa.UnOp)
	if !ok || u.Op != token.MUL {
		return false
	}
	fa, ok := u.X.(*ssa.FieldAddr)
	return ok && fieldOfAddr(fa).Name() == "Type" && typeIs(fa.X.Type().Underlying().(*types.Pointer).Elem(), "encoding/pem", "Block")
}

// reCutLine: string(Cut(Cut(content, prefix)#1, "\n")#0) for bytes.Cut or strings.Cut, possibly trimmed of white space
// (the base64 alphabet has none)
var reCutLine = regexp.MustCompile(`^(?:conv:string\()?(?:(?:bytes|strings)\.TrimSpace\()?(?:bytes|strings)\.Cut\((?:bytes|strings)\.Cut\((.*)\|(?:conv:\[\]byte\()?K\("([^"]*)"\)\)?\)#1\|(?:K\(10\)|(?:conv:\[\]byte\()?K\("\\n"\)\)?)\)#0\)?\)?$`)

func ruleTabHashLine(c *Ctx, r *Rep) {
	ev := c.evaluator()
	// writer: the value written to the artifact buffer is prefix + EncodeToString(HashSum(current configuration)) + "\n";
	// read off the provenance of what is written, so temporaries and helper functions do not matter
	var prefixW, prefixR, encW, encR, termW string
	var termR int64 = -1
	var wPos, rPos token.Pos
	hs := c.Method("generator/config", "CertificateContent", "HashSum")
	pvH := c.newProv().Opaque(hs)
	reLine := regexp.MustCompile(`^(?:conv:\[\]byte\()?\+\(\+\(K\("([^"]*)"\)\|\(\*encoding/base64\.Encoding\)\.EncodeToString\(G\(([^)]*)\)\|(.*)\)\)\|K\("([^"]*)"\)\)\)?$`)
	for _, fn := range c.Funcs {
		for _, ci := range callsIn(fn) {
			name := calleeFullName(ci)
			if !(strings.HasSuffix(name, ").Write") || strings.HasSuffix(name, ").WriteString") || name == "io.WriteString") {
				continue
			}
			for _, a := range ci.Common().Args {
				o := pvH.Origins(a)
				isLine := false
				for _, x := range o {
					if strings.Contains(x, ".EncodeToString(") {
						isLine = true
					}
				}
				if !isLine {
					continue
				}
				wPos = ci.Pos()
				if len(o) != 1 {
					r.Bad("hash-line-source|"+c.FuncKey(fn), c.Pos(ci.Pos()), "one hash line, computed from the entity's current configuration", strings.Join(o, " , "))
					continue
				}
				m := reLine.FindStringSubmatch(o[0])
				if m == nil {
					r.Undecided("shape:hash-line|"+c.FuncKey(fn), c.Pos(ci.Pos()), "the hash line is not prefix + EncodeToString(hash) + terminator: "+o[0])
					continue
				}
				prefixW, encW, termW = m[1], m[2], m[4]
				if termW == `\n` {
					termW = "\n"
				}
				hash := m[3]
				okHash := hs != nil && strings.HasSuffix(hash, ")") && strings.Contains(hash, "HashSum(") && !strings.Contains(hash, ",") &&
					strings.HasPrefix(hash[strings.Index(hash, "HashSum(")+len("HashSum("):], "P("+c.FuncKey(fn)+".")
				r.Check(okHash, "hash-line-source|"+c.FuncKey(fn), c.Pos(ci.Pos()), "the hash written is HashSum() of the entity's configuration as it is now (not a remembered one)", hash)
			}
		}
	}
	for _, fn := range c.Funcs {
		for _, ci := range callsIn(fn) {
			switch calleeFullName(ci) {
			case "(*encoding/base64.Encoding).DecodeString":
				// reader, form 1: the decoded text is cut out of the file with bytes.Cut / strings.Cut: prefix and terminator
				// are read off the provenance of the argument
				for _, o := range pvH.Origins(ci.Common().Args[1]) {
					if m := reCutLine.FindStringSubmatch(o); m != nil && strings.Contains(m[1], "io.ReadAll(") {
						prefixR = m[2]
						termR = '\n'
						encR = c.describe(ev, ci.Common().Args[0], 0).Name
						rPos = ci.Pos()
					}
				}
				if rPos != token.NoPos {
					continue
				}
				// reader, form 2: in a function that also calls bytes.Index with a []byte(const) needle - or whose argument
				// is the answer of a same-package helper that does
				scanFns := []*ssa.Function{fn}
				if ex, ok := ci.Common().Args[1].(*ssa.Extract); ok {
					if hc, ok := ex.Tuple.(*ssa.Call); ok {
						if g := hc.Call.StaticCallee(); g != nil && c.InModule(g) && g.Blocks != nil && g.Pkg == fn.Pkg {
							scanFns = append(scanFns, g)
						}
					}
				} else if hc, ok := ci.Common().Args[1].(*ssa.Call); ok {
					if g := hc.Call.StaticCallee(); g != nil && c.InModule(g) && g.Blocks != nil && g.Pkg == fn.Pkg {
						scanFns = append(scanFns, g)
					}
				}
				var scanCalls []ssa.CallInstruction
				for _, sf := range scanFns {
					scanCalls = append(scanCalls, callsIn(sf)...)
				}
				for _, ci2 := range scanCalls {
					switch calleeFullName(ci2) {
					case "bytes.Index":
						if cv, ok := ci2.Common().Args[1].(*ssa.Convert); ok {
							if k, ok := cv.X.(*ssa.Const); ok && k.Value != nil {
								prefixR = constant.StringVal(k.Value)
								encR = c.describe(ev, ci.Common().Args[0], 0).Name
								rPos = ci.Pos()
							}
						}
					case "bytes.IndexRune", "bytes.IndexByte":
						if k, ok := ci2.Common().Args[1].(*ssa.Const); ok {
							termR = k.Int64()
						}
					}
				}
			}
		}
	}
	if wPos == token.NoPos {
		r.Undecided("anchor:hash-writer", "", "nothing that contains EncodeToString(…) is written to a buffer or writer")
		return
	}
	if rPos == token.NoPos {
		r.Undecided("anchor:hash-reader", "", "no function with bytes.Index(…, []byte(const)) and DecodeString found")
		return
	}
	r.Check(prefixW != "" && prefixW == prefixR, "prefix", c.Pos(rPos), "reader searches the prefix the writer emits ("+prefixW+")", prefixR)
	r.Check(encW != "" && encW == encR, "encoding", c.Pos(rPos), "reader decodes with the writer's encoding ("+encW+")", encR)
	r.Check(termW == "\n" && termR == '\n', "terminator", c.Pos(rPos), "line ends with \\n for writer and reader", sprintf("writer %q reader %q", termW, string(rune(termR))))
	r.Check(encW == "encoding/base64.StdEncoding", "encoding-std", c.Pos(wPos), "StdEncoding (alphabet has no newline)", encW)
	r.Check(!strings.ContainsAny(prefixW, "\n") && strings.HasPrefix(prefixW, "#"), "prefix-shape", c.Pos(wPos), "prefix is a single-line marker that PEM decoding skips as preamble", prefixW)
}

func ruleTabSuffix(c *Ctx, r *Rep) {
	want := refStrings("suffixes")
	// the WalkDir callback: strings.HasSuffix(lower, const) calls
	var best *ssa.Function
	got := map[string]bool{}
	lowered := true
	for _, fn := range c.Funcs {
		local := map[string]bool{}
		allLower := true
		for _, ci := range callsIn(fn) {
			if calleeFullName(ci) != "strings.HasSuffix" {
				continue
			}
			if k, ok := ci.Common().Args[1].(*ssa.Const); ok && k.Value != nil {
				local[constant.StringVal(k.Value)] = true
			} else if list := stringListElement(c, ci.Common().Args[1]); list != nil {
				for _, x := range list {
					local[x] = true
				}
			} else {
				continue
			}
			isLowered := func(v ssa.Value) bool {
				call, ok := v.(*ssa.Call)
				return ok && calleeFullName(call) == "strings.ToLower"
			}
			arg := ci.Common().Args[0]
			okLower := isLowered(arg)
			if prm, isP := arg.(*ssa.Parameter); isP && !okLower {
				// a predicate helper: every caller hands in the lower-cased name
				n, all := 0, true
				for i, q := range fn.Params {
					if q != prm {
						continue
					}
					for _, caller := range c.Funcs {
						for _, site := range callsIn(caller) {
							if site.Common().StaticCallee() == fn && i < len(site.Common().Args) {
								n++
								if !isLowered(site.Common().Args[i]) {
									all = false
								}
							}
						}
					}
				}
				okLower = n > 0 && all
			}
			if !okLower {
				allLower = false
			}
		}
		if len(local) >= 2 && strings.Contains(fn.Pkg.Pkg.Path(), "filesystem") {
			best, got, lowered = fn, local, allLower
		}
	}
	if best == nil {
		// the filter written as one regular expression: a constant pattern, evaluated against the reference suffixes and
		// against names that merely contain one
		for _, fn := range c.Funcs {
			if fn.Pkg == nil || !strings.Contains(fn.Pkg.Pkg.Path(), "filesystem") {
				continue
			}
			for _, ci := range callsIn(fn) {
				name := calleeFullName(ci)
				if name != "(*regexp.Regexp).MatchString" && name != "(*regexp.Regexp).Match" {
					continue
				}
				g := loadedGlobal(ci.Common().Args[0])
				if g == nil {
					continue
				}
				d := c.evaluator().GlobalVal(g.Object())
				if d.Kind != "call" || !strings.HasSuffix(d.Fn, "regexp.MustCompile") || len(d.Args) != 1 || !d.Args[0].IsConst() {
					continue
				}
				pat, _ := d.Args[0].Str()
				if len(c.globalWrites(g.Object())) > 0 {
					r.Undecided("shape:suffix-pattern", c.Pos(ci.Pos()), "the pattern variable is reassigned")
					return
				}
				re, err := regexp.Compile(pat)
				if err != nil {
					r.Undecided("shape:suffix-pattern", c.Pos(ci.Pos()), "pattern does not compile: "+pat)
					return
				}
				pos := c.Pos(ci.Pos())
				for _, sfx := range want {
					okS := re.MatchString("dir/name"+sfx) && re.MatchString("NAME"+strings.ToUpper(sfx))
					r.Check(okS, "suffix|"+sfx, pos, "suffix "+sfx+" recognised in any case (pattern "+pat+")", sprintf("%v", okS))
				}
				var extra []string
				for _, sfx := range want {
					for _, decoy := range []string{"name" + sfx + ".bak", "name" + sfx + "~", "name" + sfx + "l", sfx[1:], "name" + sfx + "/x.txt"} {
						if re.MatchString(decoy) {
							extra = append(extra, decoy)
						}
					}
				}
				for _, decoy := range []string{"name.txt", "name.pem", "name", "name.yam", "name.jso", "name.toml"} {
					if re.MatchString(decoy) {
						extra = append(extra, decoy)
					}
				}
				r.Check(len(extra) == 0, "suffix-extra|pattern", pos, "only names that end in .yaml .yml .json are configuration files", strings.Join(extra, " , "))
				r.Ok("lower-cased", pos, "the pattern is matched case-insensitively (checked with upper-case names)", pat)
				return
			}
		}
		r.Undecided("anchor:suffix-filter", "", "no function in the filesystem package tests file name suffixes")
		return
	}
	pos := c.FnPos(best)
	for _, s := range want {
		r.Check(got[s], "suffix|"+s, pos, "suffix "+s+" recognised", sprintf("%v", got[s]))
	}
	for s := range got {
		known := false
		for _, w := range want {
			if w == s {
				known = true
			}
		}
		if !known {
			r.Bad("suffix-extra|"+s, pos, "only .yaml .yml .json are configuration files", s)
		}
	}
	r.Check(lowered, "lower-cased", pos, "suffix tests run on strings.ToLower(name)", sprintf("%v", lowered))
	suffixDecides(c, r, want)
}

// suffixDecides: in the directory walk, the configuration reader is reached exactly for entries that are not directories
// and whose name has one of the suffixes - decided over every path from the callback's entry to the call, with the suffix
// tests and the directory test as free booleans (helpers and boolean variables resolved along the path).
func suffixDecides(c *Ctx, r *Rep, want []string) {
	parse := c.Func("generator/config", "ParseConfig")
	if parse == nil {
		return
	}
	for cb := range c.walkCallbacks() {
		fn := cb
		// the call that leads to the reader: ParseConfig itself or a module function below which it is called
		findSite := func(f *ssa.Function) ssa.CallInstruction {
			for _, ci := range callsIn(f) {
				g := ci.Common().StaticCallee()
				if g == nil {
					continue
				}
				if g == parse || (c.InModule(g) && g.Blocks != nil && reachesStatically(c, g, parse, 0)) {
					return ci
				}
			}
			return nil
		}
		mentionsFilter := func(f *ssa.Function) bool {
			for _, ci := range callsIn(f) {
				n := calleeFullName(ci)
				if strings.HasSuffix(n, "strings.HasSuffix") || strings.Contains(n, "MatchString") || strings.Contains(n, "IsDir") {
					return true
				}
				if g := ci.Common().StaticCallee(); g != nil && c.InModule(g) && g.Blocks != nil && len(g.Blocks) <= 12 && g != f {
					for _, ci2 := range callsIn(g) {
						n2 := calleeFullName(ci2)
						if strings.HasSuffix(n2, "strings.HasSuffix") || strings.Contains(n2, "MatchString") {
							return true
						}
					}
				}
			}
			return false
		}
		site := findSite(fn)
		// a callback that hands each entry to a function of the module: the filter is looked for there
		for depth := 0; depth < 3 && site != nil && !mentionsFilter(fn); depth++ {
			g := site.Common().StaticCallee()
			if g == nil || g == parse {
				break
			}
			fn, site = g, findSite(g)
		}
		if site == nil {
			continue
		}
		fk := c.FuncKey(fn)
		a := &atomizer{c: c, pv: c.newProv(), fn: fn, unroll: 1}
		paths, ok := a.pathsDNF(fn.Blocks[0], site.Block(), 20000)
		if !ok {
			r.Undecided("shape:suffix-decides|"+fk, c.Pos(site.Pos()), "too many paths to the reader")
			continue
		}
		// predicates of the module that test the suffix inside (a search through the list of suffixes, a pattern)
		var suffixPredicates []string
		for _, f := range c.Funcs {
			if f.Blocks == nil || f.Signature.Results().Len() != 1 || !isBoolType(f.Signature.Results().At(0).Type()) || len(f.Blocks) > 12 {
				continue
			}
			for _, ci := range callsIn(f) {
				if n := calleeFullName(ci); n == "strings.HasSuffix" || strings.Contains(n, "regexp.Regexp).MatchString") {
					suffixPredicates = append(suffixPredicates, c.FuncKey(f)+"(")
				}
			}
		}
		classify := func(atom string) string {
			for _, sp := range suffixPredicates {
				if strings.Contains(atom, sp) && !strings.Contains(atom, "HasSuffix(") {
					return "any"
				}
			}
			if strings.Contains(atom, "HasSuffix(") {
				for _, w := range want {
					if strings.Contains(atom, "K(\""+w+"\")") {
						return w
					}
				}
				return "any" // a test against an element of the suffix list
			}
			if strings.Contains(atom, "regexp.Regexp).MatchString(") {
				return "any"
			}
			if strings.Contains(atom, "IsDir(") {
				return "dir"
			}
			return ""
		}
		names := append([]string{"dir"}, want...)
		// a list-driven or pattern-driven filter has one test that stands for "some suffix matches"; which suffixes
		// those are is what the suffix|… obligations above decide
		generic := false
		for _, p := range paths {
			for _, l := range p {
				if classify(l.atom) == "any" {
					generic = true
				}
			}
		}
		if generic {
			names = []string{"dir", "any"}
		}
		bad := ""
		for mask := 0; mask < 1<<len(names); mask++ {
			val := map[string]bool{}
			for i, n := range names {
				val[n] = mask&(1<<i) != 0
			}
			reach := false
			for _, p := range paths {
				feasible := true
				sign := map[string]bool{}
				for _, l := range p {
					cl := classify(l.atom)
					if cl == "" {
						continue // other tests (loop conditions change from round to round; errors are the environment's)
					}
					if generic && cl == "any" {
						// a list is searched: one element matching is enough, the others may fail
						if l.pos {
							sign["any"] = true
						}
						continue
					}
					if was, dup := sign[l.atom]; dup && was != l.pos {
						feasible = false
					}
					sign[l.atom] = l.pos
					if cl != "any" && val[cl] != l.pos {
						feasible = false
					}
				}
				if generic && feasible {
					// the path's outcome for "some suffix matches": true when a test came out true on it
					if sign["any"] != val["any"] {
						feasible = false
					}
				}
				if feasible {
					reach = true
				}
			}
			anySuffix := generic && val["any"]
			for _, w := range want {
				if !generic && val[w] {
					anySuffix = true
				}
			}
			wantReach := !val["dir"] && anySuffix
			if reach != wantReach {
				bad = sprintf("with directory=%v and suffixes %v the reader is reached: %v", val["dir"], val, reach)
			}
		}
		r.Check(bad == "", "suffix-decides|"+fk, c.Pos(site.Pos()), "the reader is reached exactly for non-directories with one of the suffixes", bad)
	}
}

// ---- TAB-DATE / TAB-SERIAL / TAB-CLI live in rules_tables3.go ----

var _ = big.NewInt
var _ = syntax.Parse

// stringListElement: v is an element of a package-level []string literal (ranged or indexed); returns the literal's strings.
func stringListElement(c *Ctx, v ssa.Value) []string {
	u, ok := v.(*ssa.UnOp)
	if !ok {
		return nil
	}
	ia, ok := u.X.(*ssa.IndexAddr)
	if !ok {
		return nil
	}
	lu, ok := ia.X.(*ssa.UnOp)
	if !ok {
		return nil
	}
	g, ok := lu.X.(*ssa.Global)
	if !ok || len(c.globalWrites(g.Object())) > 0 {
		return nil
	}
	d := c.evaluator().GlobalVal(g.Object())
	if d.Kind != "list" {
		return nil
	}
	var out []string
	for _, e := range d.Elems {
		s, ok := e.Str()
		if !ok {
			return nil
		}
		out = append(out, s)
	}
	return out
}

// returnsExtension: the function's first result is a pkix.Extension or a pointer to one.
func returnsExtension(fn *ssa.Function) bool {
	res := fn.Signature.Results()
	if res.Len() == 0 {
		return false
	}
	t := res.At(0).Type()
	if p, ok := t.Underlying().(*types.Pointer); ok {
		t = p.Elem()
	}
	return typeIs(t, "crypto/x509/pkix", "Extension")
}

var provCache = map[string]*prov{}

// provFor: a provenance engine shared by the callers that use the same (default) settings.
func (c *Ctx) provFor(who string) *prov {
	key := who + "|" + c.Mod + sprintf("%p", c)
	if p, ok := provCache[key]; ok {
		return p
	}
	p := c.newProv()
	provCache[key] = p
	return p
}

// globalByOrigin resolves an origin string G(pkg.Name) to the package-level variable.
func (c *Ctx) globalByOrigin(o string) *ssa.Global {
	name := strings.TrimSuffix(strings.TrimPrefix(o, "G("), ")")
	for _, pkg := range c.Prog.AllPackages() {
		for _, m := range pkg.Members {
			if g, ok := m.(*ssa.Global); ok && objName(c, g.Object()) == name {
				return g
			}
		}
	}
	return nil
}

// marshalSite: a call of asn1.Marshal made on behalf of fn - in fn itself or in a module helper it calls - with the
// marshalled value expressed in fn's frame (a helper's parameter is mapped back to the argument at the call).
type marshalSite struct {
	ci  ssa.CallInstruction
	arg ssa.Value
}

func marshalSitesOf(c *Ctx, fn *ssa.Function) []marshalSite {
	var out []marshalSite
	var collect func(f *ssa.Function, bind map[*ssa.Parameter]ssa.Value, depth int, seen map[*ssa.Function]bool)
	collect = func(f *ssa.Function, bind map[*ssa.Parameter]ssa.Value, depth int, seen map[*ssa.Function]bool) {
		if depth > 3 || seen[f] {
			return
		}
		seen[f] = true
		defer delete(seen, f)
		mapped := func(v ssa.Value) ssa.Value {
			v = unwrapIface(v)
			if prm, ok := v.(*ssa.Parameter); ok {
				if r, ok := bind[prm]; ok {
					return r
				}
			}
			return v
		}
		for _, ci := range callsIn(f) {
			if calleeFullName(ci) == "encoding/asn1.Marshal" {
				out = append(out, marshalSite{ci, mapped(ci.Common().Args[0])})
				continue
			}
			g := ci.Common().StaticCallee()
			if g == nil || !c.InModule(g) || g.Blocks == nil || g.Pkg != fn.Pkg || ci.Common().IsInvoke() {
				continue
			}
			// only helpers that hand back an extension or its encoded value
			res := g.Signature.Results()
			if res.Len() == 0 {
				continue
			}
			if !returnsExtension(g) && !isByteSlice(res.At(0).Type()) {
				continue
			}
			b2 := map[*ssa.Parameter]ssa.Value{}
			for i, q := range g.Params {
				if i < len(ci.Common().Args) {
					b2[q] = mapped(ci.Common().Args[i])
				}
			}
			collect(g, b2, depth+1, seen)
		}
	}
	collect(fn, map[*ssa.Parameter]ssa.Value{}, 0, map[*ssa.Function]bool{})
	return out
}

func isByteSlice(t types.Type) bool {
	sl, ok := t.Underlying().(*types.Slice)
	return ok && types.Identical(sl.Elem(), types.Typ[types.Byte])
}

// rdnLookupFunc: the function of the configuration package from an attribute short name to its OID.
func (c *Ctx) rdnLookupFunc() *ssa.Function {
	var out *ssa.Function
	for _, fn := range c.Funcs {
		if fn.Parent() != nil || fn.Pkg == nil || !strings.HasSuffix(fn.Pkg.Pkg.Path(), "generator/config") || len(fn.Params) != 1 || !isString(fn.Params[0].Type()) || fn.Signature.Recv() != nil {
			continue
		}
		res := fn.Signature.Results()
		if res.Len() != 2 || !isOID(res.At(0).Type()) || !isErrorType(res.At(1).Type()) {
			continue
		}
		// not the one that also accepts dotted OIDs: it calls this one
		callsAnother := false
		for _, ci := range callsIn(fn) {
			if h := ci.Common().StaticCallee(); h != nil && h != fn && c.InModule(h) && h.Signature.Results().Len() == 2 && isOID(h.Signature.Results().At(0).Type()) {
				callsAnother = true
			}
		}
		if callsAnother {
			continue
		}
		if out != nil && fn.Object() != nil && !fn.Object().Exported() {
			continue
		}
		out = fn
	}
	return out
}

// gnMapTables: general-name label tables written as a package-level map from the type name to an entry that holds a
// constructor function: per function that looks the map up (comma-ok), the labels it accepts with the kind each
// constructor makes. A bool field of the entry that the function tests on the way (entries with false are refused)
// narrows the labels. missIsError: the not-found edge leads to an error return.
type gnMapTable struct {
	fn          *ssa.Function
	rows        map[string]*types.Named
	pos         token.Pos
	missIsError bool
}

func (c *Ctx) gnMapTables() []gnMapTable {
	ev := c.evaluator()
	var out []gnMapTable
	madeKind := func(f *ssa.Function) *types.Named {
		var kind *types.Named
		if f == nil || f.Blocks == nil {
			return nil
		}
		for _, ret := range returnsOf(f) {
			rr := retResults(ret)
			if len(rr) == 0 {
				continue
			}
			for _, pe := range phiEdges(rr[0], ret.Block()) {
				mi, ok := pe.Val.(*ssa.MakeInterface)
				if !ok {
					continue
				}
				n, ok := mi.X.Type().(*types.Named)
				if !ok || !c.IsModObj(n.Obj()) {
					continue
				}
				if _, _, isGN := marshalTag(c, n); !isGN {
					continue
				}
				if kind != nil && kind != n {
					return nil
				}
				kind = n
			}
		}
		return kind
	}
	for _, g := range c.globalsOfType(func(t types.Type) bool {
		m, ok := t.Underlying().(*types.Map)
		if !ok || !isString(m.Key()) {
			return false
		}
		st, ok := m.Elem().Underlying().(*types.Struct)
		if !ok {
			_, isFn := m.Elem().Underlying().(*types.Signature)
			return isFn
		}
		for i := 0; i < st.NumFields(); i++ {
			if _, isFn := st.Field(i).Type().Underlying().(*types.Signature); isFn {
				return true
			}
		}
		return false
	}) {
		ks, vs, why := tableOfGlobal(c, ev, g)
		if why != "" {
			continue
		}
		type entry struct {
			kind  *types.Named
			flags map[string]bool
		}
		entries := map[string]*entry{}
		okTable := len(ks) > 0
		for i := range ks {
			label, isStr := ks[i].Str()
			if !isStr {
				okTable = false
				break
			}
			e := &entry{flags: map[string]bool{}}
			fnOf := func(v *Val) *ssa.Function {
				if v != nil && v.Kind == "func" {
					if f, ok := v.Obj.(*types.Func); ok {
						return c.Prog.FuncValue(f)
					}
				}
				return nil
			}
			switch vs[i].Kind {
			case "func":
				e.kind = madeKind(fnOf(vs[i]))
			case "struct":
				for name, fv := range vs[i].Fields {
					if f := fnOf(fv); f != nil {
						e.kind = madeKind(f)
					}
					if b, isB := fv.Bool(); isB {
						e.flags[name] = b
					}
				}
			}
			if e.kind == nil {
				okTable = false
				break
			}
			entries[label] = e
		}
		if !okTable {
			continue
		}
		for _, fn := range c.Funcs {
			for _, b := range fn.Blocks {
				for _, ins := range b.Instrs {
					lk, ok := ins.(*ssa.Lookup)
					if !ok || !lk.CommaOk || loadedGlobal(lk.X) != g {
						continue
					}
					t := gnMapTable{fn: fn, rows: map[string]*types.Named{}, pos: lk.Pos()}
					// bool fields of the entry that are tested in this function: an entry with false is not served
					need := map[string]bool{}
					st, _ := g.Type().Underlying().(*types.Pointer).Elem().Underlying().(*types.Map).Elem().Underlying().(*types.Struct)
					for _, ref := range *lk.Referrers() {
						ex, isEx := ref.(*ssa.Extract)
						if !isEx {
							continue
						}
						if ex.Index == 0 && st != nil {
							for _, r2 := range *ex.Referrers() {
								if fld, isF := r2.(*ssa.Field); isF && isBoolType(fld.Type()) {
									for _, r3 := range *fld.Referrers() {
										switch r3.(type) {
										case *ssa.If, *ssa.UnOp, *ssa.Phi:
											need[st.Field(fld.Field).Name()] = true
										}
									}
								}
								// the entry kept in a local first
								if sto, isSt := r2.(*ssa.Store); isSt && sto.Val == ssa.Value(ex) {
									if al, isAl := sto.Addr.(*ssa.Alloc); isAl {
										for _, r3 := range *al.Referrers() {
											fa, isFa := r3.(*ssa.FieldAddr)
											if !isFa || !isBoolType(fa.Type().Underlying().(*types.Pointer).Elem()) {
												continue
											}
											for _, r4 := range *fa.Referrers() {
												if ld, isLd := r4.(*ssa.UnOp); isLd && ld.Op == token.MUL {
													for _, r5 := range *ld.Referrers() {
														switch r5.(type) {
														case *ssa.If, *ssa.UnOp, *ssa.Phi:
															need[st.Field(fa.Field).Name()] = true
														}
													}
												}
											}
										}
									}
								}
							}
						}
						if ex.Index == 1 {
							for _, ret := range returnsOf(fn) {
								if !returnsNonNilError(ret) {
									continue
								}
								for _, gd := range guardsOf(ret.Block()) {
									cond, truth := gd.Cond, gd.Truth
									if u, isNot := cond.(*ssa.UnOp); isNot && u.Op == token.NOT {
										cond, truth = u.X, !truth
									}
									if cond == ssa.Value(ex) && !truth {
										t.missIsError = true
									}
								}
								// `!known || !entry.flag`: the error exit is reached from the not-found edge
								for _, p := range ret.Block().Preds {
									if iff, isIf := lastInstr(p).(*ssa.If); isIf {
										cond, neg := iff.Cond, false
										if u, isNot := cond.(*ssa.UnOp); isNot && u.Op == token.NOT {
											cond, neg = u.X, true
										}
										if cond == ssa.Value(ex) {
											if (neg && p.Succs[0] == ret.Block()) || (!neg && p.Succs[1] == ret.Block()) {
												t.missIsError = true
											}
										}
									}
								}
							}
						}
					}
					for label, e := range entries {
						served := true
						for name := range need {
							if v, has := e.flags[name]; has && !v {
								served = false
							}
						}
						if served {
							t.rows[label] = e.kind
						}
					}
					out = append(out, t)
				}
			}
		}
	}
	sort.Slice(out, func(i, j int) bool { return c.FuncKey(out[i].fn) < c.FuncKey(out[j].fn) })
	return out
}
