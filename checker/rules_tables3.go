package main

import (
	"encoding/json"
	"go/constant"
	"go/token"
	"go/types"
	"math/big"
	"regexp/syntax"
	"strings"

	"golang.org/x/tools/go/ssa"
)

func init() {
	register(&Rule{Name: "TAB-DATE", Floor: 12, Run: ruleTabDate,
		Doc: "from/until are parsed with layout year-month-day (2006-01-02) in time.Local; duration counts of the capture groups before y, m, d are added to From by one AddDate(y, m, d); without until/duration the default is AddDate(5, 0, 0); without from the start is time.Now()"})
	register(&Rule{Name: "TAB-SERIAL", Floor: 4, Run: ruleTabSerial,
		Doc: "a fresh serial is drawn per certificate below a bound of at most 2^159 (20 content octets, non-negative); the version field is set to v3 (2)"})
	register(&Rule{Name: "TAB-CLI", Floor: 20, Run: ruleTabCLI,
		Doc: "each sign flag (name, shorthand, default) is wired to its strategy bit: -m generate-missing true -> 1, -a generate-all false -> 16, -e generate-expired false -> 2, -o generate-outdated false -> 4, -c generate-changed true -> 8, and the OR of the enabled bits is what planning receives"})
}

func isLoadOfGlobalNamed(v ssa.Value, pkg, name string) bool {
	u, ok := v.(*ssa.UnOp)
	if !ok || u.Op != token.MUL {
		return false
	}
	g, ok := u.X.(*ssa.Global)
	return ok && g.Pkg != nil && g.Pkg.Pkg.Path() == pkg && g.Name() == name
}

// fieldLoadName: v is a load (or Field extract) of a struct field; returns the field.
func fieldLoad(v ssa.Value) *types.Var {
	switch x := v.(type) {
	case *ssa.UnOp:
		if x.Op == token.MUL {
			if fa, ok := x.X.(*ssa.FieldAddr); ok {
				return fieldOfAddr(fa)
			}
		}
	case *ssa.Field:
		return fieldOfVal(x)
	}
	return nil
}

// storedField: for a value v, the struct fields it is stored to within its function.
func storedFields(v ssa.Value) []*types.Var {
	var out []*types.Var
	refs := v.Referrers()
	if refs == nil {
		return nil
	}
	for _, ref := range *refs {
		switch x := ref.(type) {
		case *ssa.Store:
			if x.Val == v {
				if fa, ok := x.Addr.(*ssa.FieldAddr); ok {
					out = append(out, fieldOfAddr(fa))
				}
			}
		case *ssa.Phi:
			out = append(out, storedFields(x)...)
		}
	}
	return out
}

// durationGroups parses the duration pattern and returns capture index -> unit letter following it.
func durationGroups(pattern string) (map[int]string, string) {
	re, err := syntax.Parse(pattern, syntax.Perl)
	if err != nil {
		return nil, err.Error()
	}
	out := map[int]string{}
	var walk func(n *syntax.Regexp)
	walk = func(n *syntax.Regexp) {
		if n.Op == syntax.OpConcat {
			for i, s := range n.Sub {
				if s.Op == syntax.OpCapture && i+1 < len(n.Sub) && n.Sub[i+1].Op == syntax.OpLiteral {
					// the capture must be digits only
					inner := s.Sub[0]
					if (inner.Op == syntax.OpPlus || inner.Op == syntax.OpStar) && inner.Sub[0].Op == syntax.OpCharClass {
						out[s.Cap] = string(n.Sub[i+1].Rune)
					}
				}
			}
		}
		for _, s := range n.Sub {
			walk(s)
		}
	}
	walk(re)
	return out, ""
}

// validityParser: the function that fills config.CertificateValidity.From/Until from the YAML strings.
func (c *Ctx) validityParser() *ssa.Function {
	var out *ssa.Function
	for _, fn := range c.Funcs {
		if !strings.HasSuffix(fn.Pkg.Pkg.Path(), "config/v1") {
			continue
		}
		hasFrom, hasUntil := false, false
		for _, fs := range storesIntoType(c, fn, "config.CertificateValidity") {
			if fs.field == "From" {
				hasFrom = true
			}
			if fs.field == "Until" {
				hasUntil = true
			}
		}
		if hasFrom && hasUntil {
			if out != nil {
				return nil
			}
			out = fn
		}
	}
	return out
}

// dateParse describes one date-parsing site of the validity parser: the call in the parser, the value parsed,
// and the layout/location that reach time.ParseInLocation (directly or through a one-call wrapper).
type dateParse struct {
	call   *ssa.Call
	value  ssa.Value
	layout ssa.Value
	loc    ssa.Value
	pos    token.Pos
}

func dateParses(c *Ctx, fn *ssa.Function) []dateParse {
	var out []dateParse
	for _, ci := range callsIn(fn) {
		call, ok := ci.(*ssa.Call)
		if !ok {
			continue
		}
		if calleeFullName(ci) == "time.ParseInLocation" {
			a := ci.Common().Args
			out = append(out, dateParse{call, a[1], a[0], a[2], ci.Pos()})
			continue
		}
		// wrapper: a module function whose only call is ParseInLocation with one of its parameters as the value
		f := ci.Common().StaticCallee()
		if f == nil || !c.InModule(f) || f.Blocks == nil || len(f.Blocks) != 1 {
			continue
		}
		for _, ci2 := range callsIn(f) {
			if calleeFullName(ci2) != "time.ParseInLocation" {
				continue
			}
			a := ci2.Common().Args
			for i, prm := range f.Params {
				if a[1] == ssa.Value(prm) && i < len(ci.Common().Args) {
					out = append(out, dateParse{call, ci.Common().Args[i], a[0], a[2], ci2.Pos()})
				}
			}
		}
	}
	return out
}

func ruleTabDate(c *Ctx, r *Rep) {
	fn := c.validityParser()
	if fn == nil {
		r.Undecided("anchor:validity-parser", "", "no unique function fills CertificateValidity.From and .Until")
		return
	}
	fk := c.FuncKey(fn)
	parsedInto := map[string]string{} // result field -> source yaml field
	sites := dateParses(c, fn)
	if len(sites) < 2 {
		r.Undecided("shape:"+fk, c.FnPos(fn), sprintf("%d date-parsing sites found in the validity parser, expected 2", len(sites)))
	}
	for _, dp := range sites {
		pos := c.Pos(dp.pos)
		src := fieldLoad(dp.value)
		srcName := "?"
		if src != nil {
			srcName = src.Name()
		}
		layout := ""
		if k, ok := dp.layout.(*ssa.Const); ok && k.Value != nil && k.Value.Kind() == constant.String {
			layout = constant.StringVal(k.Value)
		}
		r.Check(layout == "2006-01-02", "layout|"+srcName, pos, "layout 2006-01-02 = year-month-day (Go reference time: 01 is the month, 02 the day)", layout)
		r.Check(isLoadOfGlobalNamed(dp.loc, "time", "Local"), "location|"+srcName, pos, "time.Local (dates are local midnight)", dp.loc.String())
		// result stored to which field?
		for _, ref := range *dp.call.Referrers() {
			if ex, ok := ref.(*ssa.Extract); ok && ex.Index == 0 {
				for _, f := range storedFields(ex) {
					parsedInto[f.Name()] = srcName
				}
			}
		}
	}
	r.Check(parsedInto["From"] == "From", "wiring|from", c.FnPos(fn), "notBefore (From) is parsed from the YAML field from", parsedInto["From"])
	r.Check(parsedInto["Until"] == "Until", "wiring|until", c.FnPos(fn), "notAfter (Until) is parsed from the YAML field until", parsedInto["Until"])

	// duration pattern
	b, _, err := c.EmbeddedFile("generator/config/v1", "duration.json")
	if err != nil {
		r.Undecided("anchor:duration.json", "", err.Error())
		return
	}
	var sch struct{ Pattern string }
	if err := json.Unmarshal(b, &sch); err != nil || sch.Pattern == "" {
		r.Undecided("anchor:duration.json", "", "no pattern")
		return
	}
	groups, why := durationGroups(sch.Pattern)
	if why != "" {
		r.Undecided("shape:duration-pattern", "generator/config/v1/duration.json", why)
		return
	}
	var subCalls []*ssa.Call // the FindStringSubmatch calls the counts come from
	var unitOfGroup func(v ssa.Value) string
	unitOfGroup = func(v ssa.Value) string {
		// v = extract #0 of a call whose (transitive, module) argument is submatch[const]
		seen := 0
		for seen < 4 {
			seen++
			if ex, ok := v.(*ssa.Extract); ok {
				// a module helper that splits the duration and hands back several counts: follow result #k
				if call, isCall := ex.Tuple.(*ssa.Call); isCall {
					if g := call.Call.StaticCallee(); g != nil && c.InModule(g) && g.Blocks != nil && !wrapsAtoi(g) && g.Signature.Results().Len() > 2 {
						unit := ""
						for _, ret := range returnsOf(g) {
							if returnsNonNilError(ret) {
								continue
							}
							u := unitOfGroup(retResults(ret)[ex.Index])
							if unit == "" {
								unit = u
							} else if unit != u {
								return "?helper returns different groups"
							}
						}
						if unit == "" {
							return "?helper never succeeds"
						}
						return unit
					}
				}
				v = ex.Tuple
			}
			// table-driven form: counts[k], filled in a loop over a package-level list of (group, unit) entries
			if ld, isLd := v.(*ssa.UnOp); isLd && ld.Op == token.MUL {
				if ia, isIA := ld.X.(*ssa.IndexAddr); isIA {
					if arr, isAl := ia.X.(*ssa.Alloc); isAl {
						if kc, isK := ia.Index.(*ssa.Const); isK && arr.Referrers() != nil {
							for _, u := range *arr.Referrers() {
								ia2, ok := u.(*ssa.IndexAddr)
								if !ok || ia2 == ia || ia2.Referrers() == nil {
									continue
								}
								for _, uu := range *ia2.Referrers() {
									st, ok := uu.(*ssa.Store)
									if !ok || st.Addr != ssa.Value(ia2) {
										continue
									}
									// value: atoi(submatch[entry.group]) for the entry with the same index as the store
									sv := st.Val
									if ex, ok := sv.(*ssa.Extract); ok {
										sv = ex.Tuple
									}
									ac, ok := sv.(*ssa.Call)
									if !ok || len(ac.Call.Args) == 0 {
										continue
									}
									cal := ac.Call.StaticCallee()
									if !(calleeFullName(ac) == "strconv.Atoi" || (cal != nil && c.InModule(cal) && wrapsAtoi(cal))) {
										continue
									}
									al, ok := ac.Call.Args[len(ac.Call.Args)-1].(*ssa.UnOp)
									if !ok {
										continue
									}
									gia, ok := al.X.(*ssa.IndexAddr)
									if !ok {
										continue
									}
									sub, ok := gia.X.(*ssa.Call)
									if !ok || calleeFullName(sub) != "(*regexp.Regexp).FindStringSubmatch" {
										continue
									}
									tab, fname := tableElemField(gia.Index)
									if tab == nil {
										continue
									}
									rows, why := tableRows(c, c.evaluator(), tab)
									if why != "" || int(kc.Int64()) >= len(rows) {
										return "?table " + why
									}
									g, okG := rows[kc.Int64()][fname].Int()
									if !okG {
										return "?table entry is not a constant group number"
									}
									subCalls = append(subCalls, sub)
									if u := groups[int(g)]; u != "" {
										return u
									}
									return sprintf("?group %d is not a digit group followed by a unit letter", g)
								}
							}
						}
					}
				}
			}
			call, ok := v.(*ssa.Call)
			if !ok || len(call.Call.Args) == 0 {
				return "?" + v.String()
			}
			name := calleeFullName(call)
			callee := call.Call.StaticCallee()
			if name == "strconv.Atoi" || (callee != nil && c.InModule(callee) && wrapsAtoi(callee)) {
				arg := call.Call.Args[len(call.Call.Args)-1]
				u, ok := arg.(*ssa.UnOp)
				if !ok {
					return "?arg " + arg.String()
				}
				ia, ok := u.X.(*ssa.IndexAddr)
				if !ok {
					return "?arg " + arg.String()
				}
				k, ok := ia.Index.(*ssa.Const)
				if !ok {
					return "?index"
				}
				sub, ok := ia.X.(*ssa.Call)
				if !ok || calleeFullName(sub) != "(*regexp.Regexp).FindStringSubmatch" {
					return "?not a submatch"
				}
				subCalls = append(subCalls, sub)
				if u := groups[int(k.Int64())]; u != "" {
					return u
				}
				return sprintf("?group %d is not a digit group followed by a unit letter", k.Int64())
			}
			return "?call " + name
		}
		return "?"
	}
	var addDates []*ssa.Call
	for _, ci := range callsIn(fn) {
		if calleeFullName(ci) == "(time.Time).AddDate" {
			addDates = append(addDates, ci.(*ssa.Call))
		}
	}
	nDur, nDef := 0, 0
	for _, ad := range addDates {
		args := ad.Call.Args // recv, y, m, d
		pos := c.Pos(ad.Pos())
		recv := fieldLoad(args[0])
		recvName := "?"
		if recv != nil {
			recvName = recv.Name()
		}
		intoUntil := false
		for _, f := range storedFields(ad) {
			if f.Name() == "Until" {
				intoUntil = true
			}
		}
		k0, c0 := args[1].(*ssa.Const)
		k1, c1 := args[2].(*ssa.Const)
		k2, c2 := args[3].(*ssa.Const)
		if c0 && c1 && c2 {
			nDef++
			r.Check(k0.Int64() == 5 && k1.Int64() == 0 && k2.Int64() == 0, "default-lifetime", pos, "AddDate(5, 0, 0): five years", sprintf("AddDate(%d, %d, %d)", k0.Int64(), k1.Int64(), k2.Int64()))
			r.Check(recvName == "From" && intoUntil, "default-lifetime-wiring", pos, "Until = From.AddDate(…)", sprintf("receiver %s, stored to Until: %v", recvName, intoUntil))
			continue
		}
		nDur++
		units := unitOfGroup(args[1]) + unitOfGroup(args[2]) + unitOfGroup(args[3])
		r.Check(units == "ymd", "duration-args", pos, "AddDate(years, months, days) from the capture groups before y, m, d of duration.json", units)
		r.Check(recvName == "From" && intoUntil, "duration-wiring", pos, "Until = From.AddDate(y, m, d) in one calendar addition", sprintf("receiver %s, stored to Until: %v", recvName, intoUntil))
	}
	r.Check(nDur == 1 && nDef == 1, "adddate-sites|"+fk, c.FnPos(fn), "exactly one duration addition and one default addition", sprintf("%d duration, %d default", nDur, nDef))

	// from absent => time.Now()
	nowOK := false
	for _, ci := range callsIn(fn) {
		if calleeFullName(ci) == "time.Now" {
			for _, f := range storedFields(ci.(*ssa.Call)) {
				if f.Name() == "From" {
					// must be on the false edge of len(from) != 0
					nowOK = true
				}
			}
		}
	}
	r.Check(nowOK, "from-absent-now", c.FnPos(fn), "without from, From = time.Now()", sprintf("%v", nowOK))
	// submatch regexp is the one compiled from duration.json
	rxOK := len(subCalls) > 0
	for _, sub := range subCalls {
		ok := false
		if u, isLoad := sub.Call.Args[0].(*ssa.UnOp); isLoad {
			if g, isG := u.X.(*ssa.Global); isG {
				ok = globalCompiledFromEmbed(c, g, "duration.json")
			}
		}
		if !ok {
			rxOK = false
		}
	}
	r.Check(rxOK, "duration-regexp-source", c.FnPos(fn), "the submatch regexp is compiled at init from the embedded duration.json", sprintf("%v", rxOK))
}

// wrapsAtoi: a module helper whose only conversion is strconv.Atoi of its parameter.
func wrapsAtoi(f *ssa.Function) bool {
	if len(f.Params) != 1 {
		return false
	}
	n := 0
	for _, ci := range callsIn(f) {
		if _, builtin := ci.Common().Value.(*ssa.Builtin); builtin {
			continue
		}
		name := calleeFullName(ci)
		decimal := name == "strconv.Atoi"
		if name == "strconv.ParseInt" || name == "strconv.ParseUint" {
			if k, ok := ci.Common().Args[1].(*ssa.Const); ok && k.Value != nil && k.Int64() == 10 {
				decimal = true // the base itself is LINT-NARROW's business; a decimal parse is the same conversion
			}
		}
		if decimal && ci.Common().Args[0] == ssa.Value(f.Params[0]) {
			n++
		} else if strings.HasPrefix(name, "fmt.") || strings.HasPrefix(name, "errors.") {
			continue // building an error message
		} else if g := ci.Common().StaticCallee(); g != nil && g.Blocks != nil && len(g.Blocks) == 1 && g.Signature.Results().Len() == 1 && isBoolType(g.Signature.Results().At(0).Type()) {
			continue // a one-expression predicate (isSet(s))
		} else {
			return false
		}
	}
	return n == 1
}

// globalCompiledFromEmbed: g is stored only in an init function that calls regexp.MustCompile and
// references the string variable embedding file.
func globalCompiledFromEmbed(c *Ctx, g *ssa.Global, file string) bool {
	if len(c.globalWrites(g.Object())) > 0 {
		return false
	}
	for _, fn := range c.Funcs {
		if !(fn.Name() == "init" || strings.HasPrefix(fn.Name(), "init#")) {
			continue
		}
		stores, compiles, refsEmbed := false, false, false
		for _, b := range fn.Blocks {
			for _, ins := range b.Instrs {
				if st, ok := ins.(*ssa.Store); ok && st.Addr == ssa.Value(g) {
					if call, ok := st.Val.(*ssa.Call); ok && calleeFullName(call) == "regexp.MustCompile" {
						stores, compiles = true, true
					}
				}
				if u, ok := ins.(*ssa.UnOp); ok {
					if eg, ok := u.X.(*ssa.Global); ok && embedsFile(c, eg, file) {
						refsEmbed = true
					}
				}
			}
		}
		if stores && compiles && refsEmbed {
			return true
		}
	}
	return false
}

// embedsFile: the package-level string variable carries a //go:embed directive for file.
func embedsFile(c *Ctx, g *ssa.Global, file string) bool {
	p, f := c.FileOf(g.Pos())
	if p == nil {
		return false
	}
	for _, d := range f.Decls {
		if d.Pos() <= g.Pos() && g.Pos() <= d.End() {
			// GenDecl doc comments hold the directive
			for _, cg := range f.Comments {
				if cg.End() < d.Pos() && d.Pos()-cg.End() <= 2 {
					for _, cm := range cg.List {
						if strings.HasPrefix(cm.Text, "//go:embed") && strings.Contains(cm.Text, file) {
							return true
						}
					}
				}
			}
		}
	}
	return false
}

func ruleTabSerial(c *Ctx, r *Rep) {
	ev := c.evaluator()
	// the constructor: function storing a (*big.Int).Rand result into TbsCertificate.SerialNumber
	n := 0
	for _, fn := range c.Funcs {
		for _, b := range fn.Blocks {
			for _, ins := range b.Instrs {
				st, ok := ins.(*ssa.Store)
				if !ok {
					continue
				}
				fa, ok := st.Addr.(*ssa.FieldAddr)
				if !ok || !strings.HasSuffix(ownerName(c, fa.X.Type()), "TbsCertificate") {
					continue
				}
				switch fieldOfAddr(fa).Name() {
				case "SerialNumber":
					call, ok := st.Val.(*ssa.Call)
					if !ok || calleeFullName(call) != "(*math/big.Int).Rand" {
						continue // configured serials are handled by PROV-SERIAL
					}
					n++
					pos := c.Pos(st.Pos())
					fresh := false
					if recv, ok := call.Call.Args[0].(*ssa.Alloc); ok && recv.Heap {
						fresh = true // new(big.Int) per call
					}
					r.Check(fresh, "serial-fresh|"+c.FuncKey(fn), pos, "a new big.Int drawn on every call", call.Call.Args[0].String())
					bound := c.describe(ev, call.Call.Args[2], 0)
					val, why := evalBigExp(bound)
					if why != "" {
						r.Undecided("shape:serial-bound", pos, why+": "+bound.String())
						continue
					}
					lim := new(big.Int).Lsh(big.NewInt(1), 159)
					r.Check(val.Sign() > 0 && val.Cmp(lim) <= 0, "serial-bound|"+c.FuncKey(fn), pos, "bound <= 2^159 so that the INTEGER has at most 20 content octets", "2^"+sprintf("%d", val.BitLen()-1)+" ("+val.String()+")")
					if g, ok := bound.Var.(*types.Var); ok {
						w := c.globalWrites(g)
						r.Check(len(w) == 0, "serial-bound-constant|"+g.Name(), pos, "the bound is never reassigned", strings.Join(w, "; "))
					}
				case "Version":
					k, ok := st.Val.(*ssa.Const)
					if !ok {
						continue // manipulations are handled by PROV-MANIP
					}
					n++
					r.Check(k.Int64() == 2, "version-v3|"+c.FuncKey(fn), c.Pos(st.Pos()), "version field 2 (v3)", sprintf("%d", k.Int64()))
				}
			}
		}
	}
	if n < 2 {
		r.Undecided("floor:serial-version", "", sprintf("%d serial/version stores found", n))
	}
}

// evalBigExp evaluates big.NewInt(a).Exp(big.NewInt(b), big.NewInt(e), big.NewInt(0)) and big.NewInt(k).
func evalBigExp(v *Val) (*big.Int, string) {
	bigConst := func(x *Val) (*big.Int, bool) {
		if x.Kind == "call" && x.Fn == "math/big.NewInt" && len(x.Args) == 1 {
			if n, ok := x.Args[0].Int(); ok {
				return big.NewInt(n), true
			}
		}
		return nil, false
	}
	if b, ok := bigConst(v); ok {
		return b, ""
	}
	if v.Kind == "call" && v.Fn == "(*math/big.Int).Exp" && len(v.Args) == 4 {
		base, ok1 := bigConst(v.Args[1])
		exp, ok2 := bigConst(v.Args[2])
		mod, ok3 := bigConst(v.Args[3])
		if ok1 && ok2 && ok3 && exp.IsInt64() && exp.Int64() >= 0 && exp.Int64() < 4096 {
			out := new(big.Int).Exp(base, exp, nil)
			if mod.Sign() != 0 {
				out.Mod(out, mod)
			}
			return out, ""
		}
	}
	if v.Kind == "call" && v.Fn == "(*math/big.Int).Lsh" && len(v.Args) == 3 {
		base, ok1 := bigConst(v.Args[1])
		n, ok2 := v.Args[2].Int()
		if ok1 && ok2 && n >= 0 && n < 4096 {
			return new(big.Int).Lsh(base, uint(n)), ""
		}
	}
	return nil, "bound is not a recognised big.Int constant expression"
}

func ruleTabCLI(c *Ctx, r *Rep) {
	// flag definitions: BoolP(name, short, default, usage) whose result is stored to a struct field
	type flagDef struct {
		name, short string
		def         bool
		field       *types.Var
		pos         token.Pos
	}
	var defs []flagDef
	var selfRows []*flagRow // the rows of a table that holds definition and bit side by side
	var selfPtr *types.Var
	for _, fn := range c.Funcs {
		if !strings.HasSuffix(fn.Pkg.Pkg.Path(), "/cli") {
			continue
		}
		for _, ci := range callsIn(fn) {
			if !strings.HasSuffix(calleeFullName(ci), "pflag.FlagSet).BoolP") {
				continue
			}
			a := ci.Common().Args
			k1, ok1 := a[1].(*ssa.Const)
			k2, ok2 := a[2].(*ssa.Const)
			k3, ok3 := a[3].(*ssa.Const)
			if !ok1 || !ok2 || !ok3 {
				// one table for everything: rows {name, shorthand, default, bit, pointer}; the flags are defined in a loop
				// over the rows from the row's own fields, the pointer the definition answers is kept in the row
				if rows, ptrFld, why := c.flagRowTable(ci.(*ssa.Call)); why == "" {
					selfRows = rows
					selfPtr = ptrFld
					for _, rw := range rows {
						defs = append(defs, flagDef{name: rw.name, short: rw.short, def: rw.def, field: rw.key, pos: ci.Pos()})
					}
				} else {
					r.Undecided("shape:flag-definition", c.Pos(ci.Pos()), "non-constant flag definition: "+why)
				}
				continue
			}
			d := flagDef{name: constant.StringVal(k1.Value), short: constant.StringVal(k2.Value), def: constant.BoolVal(k3.Value), pos: ci.Pos()}
			fs := storedFields(ci.(*ssa.Call))
			if len(fs) == 1 {
				d.field = fs[0]
			}
			defs = append(defs, d)
		}
	}
	// uses: strat |= const under guard **field
	bitOf := map[*types.Var][]int64{}
	tableBits := map[int64]bool{}
	tableOrs := map[*ssa.BinOp]bool{}
	var orInstrs []*ssa.BinOp
	for _, fn := range c.Funcs {
		if !strings.HasSuffix(fn.Pkg.Pkg.Path(), "/cli") {
			continue
		}
		for _, b := range fn.Blocks {
			for _, ins := range b.Instrs {
				bin, ok := ins.(*ssa.BinOp)
				if !ok || bin.Op != token.OR {
					continue
				}
				k, ok := bin.Y.(*ssa.Const)
				if !ok && c.isModNamed("UpdateStrategy")(bin.Type()) {
					// the table of {flag pointer, bit} walked in a loop: the bit ORed is the bit field of an element, under
					// the test of the pointer field of the same element
					if done, why := c.flagRowBits(bin, b, selfRows, selfPtr); done {
						if why != "" {
							r.Undecided("shape:strategy-bit", c.Pos(bin.Pos()), why)
							continue
						}
						for _, rw := range selfRows {
							bitOf[rw.key] = append(bitOf[rw.key], rw.bit)
							tableBits[rw.bit] = true
						}
						tableOrs[bin] = true
						continue
					}
					if rows, why := c.flagBitTable(bin, b); why == "" {
						for fld, bit := range rows {
							bitOf[fld] = append(bitOf[fld], bit)
							tableBits[bit] = true
						}
						tableOrs[bin] = true
						continue
					} else if why != "-" {
						r.Undecided("shape:strategy-bit", c.Pos(bin.Pos()), why)
						continue
					}
				}
				if !ok || !c.isModNamed("UpdateStrategy")(k.Type()) {
					continue
				}
				orInstrs = append(orInstrs, bin)
				var fld *types.Var
				gs := guardsOf(b)
				if len(gs) > 0 && gs[0].Truth {
					if u, ok := gs[0].Cond.(*ssa.UnOp); ok && u.Op == token.MUL {
						fld = fieldLoad(u.X)
					}
				}
				if fld == nil {
					r.Undecided("shape:strategy-bit", c.Pos(bin.Pos()), "strategy bit ORed without a flag-pointer guard")
					continue
				}
				bitOf[fld] = append(bitOf[fld], k.Int64())
			}
		}
	}
	strat := c.NamedType("generator/db", "UpdateStrategy")
	var sconsts map[string]*types.Const
	if strat != nil {
		sconsts = c.constsOf(strat)
	}
	for _, e := range refList("cli") {
		name := rs(e, "flag")
		var d *flagDef
		for i := range defs {
			if defs[i].name == name {
				d = &defs[i]
			}
		}
		if d == nil {
			r.Bad("flag|"+name, "cli/root.go", "flag --"+name+" defined", "not found")
			continue
		}
		pos := c.Pos(d.pos)
		r.Check(d.short == rs(e, "short"), "short|"+name, pos, "-"+rs(e, "short"), "-"+d.short)
		r.Check(d.def == rb(e, "default"), "default|"+name, pos, sprintf("%v", rb(e, "default")), sprintf("%v", d.def))
		bits := bitOf[d.field]
		r.Check(d.field != nil && len(bits) == 1 && bits[0] == int64(ri(e, "bit")), "bit|"+name, pos, sprintf("enables strategy bit %d (%s)", ri(e, "bit"), rs(e, "strategy")), sprintf("%v", bits))
		if k := sconsts[rs(e, "strategy")]; k != nil {
			v, _ := constant.Int64Val(k.Val())
			r.Check(v == int64(ri(e, "bit")), "strategy-const|"+rs(e, "strategy"), c.Pos(k.Pos()), sprintf("%d", ri(e, "bit")), sprintf("%d", v))
		} else {
			r.Bad("strategy-const|"+rs(e, "strategy"), "", "constant exists", "missing")
		}
	}
	// planning receives the accumulated value
	for fn, cis := range c.funcsCalling(c.modPkg("generator/db") + ".PlanBulkUpdate") {
		if !strings.HasSuffix(fn.Pkg.Pkg.Path(), "/cli") {
			continue
		}
		for _, ci := range cis {
			got := map[int64]bool{}
			bases := map[int64]bool{}
			seen := map[ssa.Value]bool{}
			var walk func(v ssa.Value)
			walk = func(v ssa.Value) {
				if seen[v] {
					return
				}
				seen[v] = true
				switch x := v.(type) {
				case *ssa.Const:
					// what the word is before any flag was looked at
					if x.Value != nil {
						bases[x.Int64()] = true
					}
				case *ssa.Phi:
					for _, e := range x.Edges {
						walk(e)
					}
				case *ssa.BinOp:
					if x.Op == token.OR {
						if k, ok := x.Y.(*ssa.Const); ok {
							got[k.Int64()] = true
						}
						if tableOrs[x] {
							for bit := range tableBits {
								got[bit] = true
							}
						}
						walk(x.X)
					}
				case *ssa.Parameter:
					// the planning call sits in a helper: the word is what the helper's callers hand in
					pf := x.Parent()
					for i, prm := range pf.Params {
						if prm != x {
							continue
						}
						for _, caller := range c.Funcs {
							for _, site := range callsIn(caller) {
								if site.Common().StaticCallee() == pf && i < len(site.Common().Args) {
									walk(site.Common().Args[i])
								}
							}
						}
					}
				case *ssa.Call:
					// the word is assembled by a module helper: follow what it returns
					if g := x.Call.StaticCallee(); g != nil && c.InModule(g) && g.Blocks != nil && g.Signature.Results().Len() == 1 {
						for _, ret := range returnsOf(g) {
							walk(retResults(ret)[0])
						}
					}
				}
			}
			walk(ci.Common().Args[1])
			all := got[1] && got[2] && got[4] && got[8] && got[16] && len(got) == 5
			r.Check(all, "planning-receives-flags", c.Pos(ci.Pos()), "PlanBulkUpdate gets the OR of the five flag bits", sprintf("%v", got))
			if len(bases) > 0 {
				r.Check(len(bases) == 1 && bases[0], "strategy-starts-empty", c.Pos(ci.Pos()), "the strategy word is empty before the flags are looked at (a flag switched off is a bit that is not set)", sprintf("%v", bases))
			}
		}
	}
	_ = orInstrs
	// "nothing to do": the sequencing function gives up before planning, on account of the strategy word, only when the
	// word is empty. The test the wrong way round would end every run that has a flag set, and nothing is ever generated.
	if host, _, plan, _ := c.cliSteps(); host != nil && plan != nil {
		strat := c.NamedType("generator/db", "UpdateStrategy")
		n := 0
		for _, b := range host.Blocks {
			if plan.site.Block().Dominates(b) {
				continue
			}
			ends := false
			switch x := lastInstr(b).(type) {
			case *ssa.Return:
				ends = true
			default:
				_ = x
			}
			for _, ins := range b.Instrs {
				if call, ok := ins.(*ssa.Call); ok && calleeFullName(call) == "os.Exit" {
					ends = true
				}
			}
			if !ends || strat == nil {
				continue
			}
			for _, g := range guardsOf(b) {
				bin, ok := g.Cond.(*ssa.BinOp)
				if !ok || !types.Identical(bin.X.Type(), strat) {
					continue
				}
				k, isK := bin.Y.(*ssa.Const)
				if !isK || k.Value == nil || (bin.Op != token.EQL && bin.Op != token.NEQ) {
					continue
				}
				n++
				empty := k.Int64() == 0 && ((bin.Op == token.EQL && g.Truth) || (bin.Op == token.NEQ && !g.Truth))
				r.Check(empty, sprintf("gives-up-only-without-flags|%s#%d", c.FuncKey(host), n), c.Pos(bin.Pos()), "an exit before planning that depends on the strategy word is taken when the word is empty", sprintf("%v", empty))
			}
		}
	}
}

func isBoolType(t types.Type) bool {
	b, ok := t.Underlying().(*types.Basic)
	return ok && b.Kind() == types.Bool
}

// ---- one table of rows {name, shorthand, default, bit, pointer} ---------------------------------------------------

type flagRow struct {
	name, short string
	def         bool
	bit         int64
	key         *types.Var // stands for "the pointer of this row" where rules key by the field a flag is kept in
	consts      map[int]*ssa.Const
}

// rowElem: the table element a field is read from or written to (an element address, a loaded element, or the local a
// range loop copies each element into), the field's index, and the element's struct type.
func rowElem(v ssa.Value) (elem ssa.Value, field int, st *types.Struct, ok bool) {
	switch x := v.(type) {
	case *ssa.UnOp:
		if fa, isFa := x.X.(*ssa.FieldAddr); isFa && x.Op == token.MUL {
			if pt, isP := fa.X.Type().Underlying().(*types.Pointer); isP {
				st, _ = pt.Elem().Underlying().(*types.Struct)
			}
			return fa.X, fa.Field, st, st != nil
		}
	case *ssa.Field:
		st, _ = x.X.Type().Underlying().(*types.Struct)
		return x.X, x.Field, st, st != nil
	case *ssa.FieldAddr:
		if pt, isP := x.X.Type().Underlying().(*types.Pointer); isP {
			st, _ = pt.Elem().Underlying().(*types.Struct)
		}
		return x.X, x.Field, st, st != nil
	}
	return nil, 0, nil, false
}

// flagRowTable: BoolP(e.name, e.short, e.def, …) whose answer is stored into a pointer field of the same element e, e an
// element of a list of structs. The rows are read off the one literal list of that struct type in the package.
func (c *Ctx) flagRowTable(call *ssa.Call) ([]*flagRow, *types.Var, string) {
	a := call.Call.Args
	var elem ssa.Value
	var st *types.Struct
	idx := [3]int{}
	for i := 0; i < 3; i++ {
		e, f, s2, ok := rowElem(a[i+1])
		if !ok {
			return nil, nil, "name, shorthand and default are not fields of one table entry"
		}
		if elem == nil {
			elem, st = e, s2
		} else if e != elem {
			return nil, nil, "name, shorthand and default are read from different entries"
		}
		idx[i] = f
	}
	// the answer is kept in the same entry
	ptrField := -1
	for _, ref := range *call.Referrers() {
		if sto, isSt := ref.(*ssa.Store); isSt && sto.Val == ssa.Value(call) {
			if e, f, _, ok := rowElem(sto.Addr); ok && e == elem {
				ptrField = f
			}
		}
	}
	if ptrField < 0 {
		return nil, nil, "the pointer the definition answers is not kept in the entry it was defined from"
	}
	// the one literal list of this entry type in the package
	var literal *ssa.Alloc
	for _, fn := range c.Funcs {
		if fn.Pkg != call.Parent().Pkg {
			continue
		}
		for _, b := range fn.Blocks {
			for _, ins := range b.Instrs {
				al, isAl := ins.(*ssa.Alloc)
				if !isAl {
					continue
				}
				at, isArr := al.Type().Underlying().(*types.Pointer).Elem().Underlying().(*types.Array)
				if !isArr || !types.Identical(at.Elem().Underlying(), st) {
					continue
				}
				if literal != nil {
					return nil, nil, "more than one literal list of table entries"
				}
				literal = al
			}
		}
	}
	if literal == nil {
		return nil, nil, "no literal list of table entries"
	}
	rows := map[int64]*flagRow{}
	for _, ref := range *literal.Referrers() {
		ia, isIa := ref.(*ssa.IndexAddr)
		if !isIa {
			continue
		}
		k, isK := ia.Index.(*ssa.Const)
		if !isK {
			return nil, nil, "an entry of the table is stored at a computed index"
		}
		rw := rows[k.Int64()]
		if rw == nil {
			rw = &flagRow{consts: map[int]*ssa.Const{}}
			rows[k.Int64()] = rw
		}
		for _, r2 := range *ia.Referrers() {
			fa, isFa := r2.(*ssa.FieldAddr)
			if !isFa {
				if _, isSt := r2.(*ssa.Store); isSt {
					return nil, nil, "an entry of the table is stored as a whole"
				}
				continue
			}
			for _, r3 := range *fa.Referrers() {
				if sto, isSt := r3.(*ssa.Store); isSt && sto.Addr == ssa.Value(fa) {
					kc, isConst := sto.Val.(*ssa.Const)
					if !isConst {
						return nil, nil, "a field of a table entry is not a constant"
					}
					rw.consts[fa.Field] = kc
				}
			}
		}
	}
	at := literal.Type().Underlying().(*types.Pointer).Elem().Underlying().(*types.Array)
	if int64(len(rows)) != at.Len() {
		return nil, nil, "not every entry of the table is filled field by field"
	}
	var out []*flagRow
	for i := int64(0); i < at.Len(); i++ {
		rw := rows[i]
		str := func(f int) string {
			if k := rw.consts[f]; k != nil && k.Value != nil && k.Value.Kind() == constant.String {
				return constant.StringVal(k.Value)
			}
			return ""
		}
		rw.name, rw.short = str(idx[0]), str(idx[1])
		if k := rw.consts[idx[2]]; k != nil && k.Value != nil && k.Value.Kind() == constant.Bool {
			rw.def = constant.BoolVal(k.Value)
		}
		rw.key = types.NewVar(token.NoPos, nil, "row:"+rw.name, st.Field(ptrField).Type())
		out = append(out, rw)
	}
	return out, st.Field(ptrField), ""
}

// flagRowBits: `word |= e.bit` under `if *e.ptr`, e an entry of the table flagRowTable read, ptr the field the
// definitions are kept in: fills in the rows' bits. done is false when the OR has nothing to do with that table.
func (c *Ctx) flagRowBits(or *ssa.BinOp, b *ssa.BasicBlock, rows []*flagRow, ptr *types.Var) (bool, string) {
	if len(rows) == 0 || ptr == nil {
		return false, ""
	}
	elem, bitField, st, ok := rowElem(or.Y)
	if !ok {
		return false, ""
	}
	ptrIdx := -1
	for i := 0; i < st.NumFields(); i++ {
		if st.Field(i) == ptr {
			ptrIdx = i
		}
	}
	if ptrIdx < 0 {
		return false, ""
	}
	tested := false
	for _, g := range guardsOf(b) {
		if !g.Truth {
			continue
		}
		if u, isLoad := g.Cond.(*ssa.UnOp); isLoad && u.Op == token.MUL {
			if e2, f2, _, ok2 := rowElem(u.X); ok2 && e2 == elem && f2 == ptrIdx {
				tested = true
			}
		}
	}
	if !tested {
		return true, "a strategy bit read from a table entry is ORed without a test of that entry's own flag pointer"
	}
	for _, rw := range rows {
		k := rw.consts[bitField]
		if k == nil || k.Value == nil {
			rw.bit = 0
			continue
		}
		rw.bit = k.Int64()
	}
	return true, ""
}

// flagBitTable: `word |= e.bit` under `if *e.ptr`, e ranging over a list of {pointer, bit} entries that is built as a
// literal whose pointers are read from flag fields and whose bits are constants: the rows as field -> bit. The answer
// "-" means: not this shape at all.
func (c *Ctx) flagBitTable(or *ssa.BinOp, b *ssa.BasicBlock) (map[*types.Var]int64, string) {
	elemOf := func(v ssa.Value) (ssa.Value, int, bool) { // the element a field is read from, and the field's index
		switch x := v.(type) {
		case *ssa.UnOp:
			if fa, ok := x.X.(*ssa.FieldAddr); ok && x.Op == token.MUL {
				return fa.X, fa.Field, true
			}
		case *ssa.Field:
			return x.X, x.Field, true
		}
		return nil, 0, false
	}
	elem, bitField, ok := elemOf(or.Y)
	if !ok {
		return nil, "-"
	}
	// the guard: a load through the pointer field of the same element
	ptrField := -1
	for _, g := range guardsOf(b) {
		if !g.Truth {
			continue
		}
		if u, isLoad := g.Cond.(*ssa.UnOp); isLoad && u.Op == token.MUL {
			if e2, f2, ok2 := elemOf(u.X); ok2 && e2 == elem {
				ptrField = f2
			}
		}
	}
	if ptrField < 0 {
		return nil, "a strategy bit read from a table entry is ORed without a test of that entry's flag pointer"
	}
	// the element: of a list that is ranged over; the list: what a module function returns as a literal, or a local literal
	var list ssa.Value
	switch x := elem.(type) {
	case *ssa.IndexAddr:
		list = x.X
	case *ssa.UnOp:
		if ia, isIa := x.X.(*ssa.IndexAddr); isIa && x.Op == token.MUL {
			list = ia.X
		}
	}
	if al, isAl := elem.(*ssa.Alloc); isAl && list == nil {
		// the loop variable: a local that each element is copied into
		n := 0
		for _, ref := range *al.Referrers() {
			if st, isSt := ref.(*ssa.Store); isSt && st.Addr == ssa.Value(al) {
				n++
				if ld, isLd := st.Val.(*ssa.UnOp); isLd && ld.Op == token.MUL {
					if ia, isIa := ld.X.(*ssa.IndexAddr); isIa {
						list = ia.X
					}
				}
			}
		}
		if n != 1 {
			list = nil
		}
	}
	if list == nil {
		return nil, "the table entry is not an element of a list"
	}
	var literal *ssa.Alloc
	var find func(v ssa.Value, depth int)
	find = func(v ssa.Value, depth int) {
		if depth > 4 || v == nil {
			return
		}
		switch x := v.(type) {
		case *ssa.Slice:
			if al, isAl := x.X.(*ssa.Alloc); isAl {
				literal = al
			}
		case *ssa.Call:
			if g := x.Call.StaticCallee(); g != nil && c.InModule(g) && g.Blocks != nil {
				for _, ret := range returnsOf(g) {
					if rr := retResults(ret); len(rr) == 1 {
						find(rr[0], depth+1)
					}
				}
			}
		}
	}
	find(list, 0)
	if literal == nil {
		return nil, "the list of table entries is not a literal"
	}
	type row struct {
		fld *types.Var
		bit *ssa.Const
	}
	rows := map[int64]*row{}
	for _, ref := range *literal.Referrers() {
		ia, isIa := ref.(*ssa.IndexAddr)
		if !isIa {
			continue
		}
		k, isK := ia.Index.(*ssa.Const)
		if !isK {
			return nil, "an entry of the table is stored at a computed index"
		}
		rw := rows[k.Int64()]
		if rw == nil {
			rw = &row{}
			rows[k.Int64()] = rw
		}
		for _, r2 := range *ia.Referrers() {
			fa, isFa := r2.(*ssa.FieldAddr)
			if !isFa {
				continue
			}
			for _, r3 := range *fa.Referrers() {
				st, isSt := r3.(*ssa.Store)
				if !isSt || st.Addr != ssa.Value(fa) {
					continue
				}
				switch fa.Field {
				case ptrField:
					rw.fld = fieldLoad(st.Val)
				case bitField:
					rw.bit, _ = st.Val.(*ssa.Const)
				}
			}
		}
	}
	out := map[*types.Var]int64{}
	for _, rw := range rows {
		if rw.fld == nil || rw.bit == nil || rw.bit.Value == nil {
			return nil, "an entry of the table is not {flag field, constant bit}"
		}
		if _, dup := out[rw.fld]; dup {
			return nil, "a flag occurs twice in the table"
		}
		out[rw.fld] = rw.bit.Int64()
	}
	if len(out) == 0 {
		return nil, "the table has no entries"
	}
	return out, ""
}
