package main

import (
	"sort"
	"go/constant"
	"go/token"
	"go/types"
	"regexp"
	"strings"

	"golang.org/x/tools/go/ssa"
)

func init() {
	register(&Rule{Name: "PROV-META", Floor: 2, Run: ruleProvMeta,
		Doc: "metadata is rebuilt from disk: LastConfigUpdate is the modification time of the configuration file, LastBuild that of the artifact file obtained through the filesystem abstraction for the same name that is read, LastConfigHash the decoded hash line of that file, and the artifact is what that file's content decodes to"})
	register(&Rule{Name: "PROV-ALIAS", Floor: 1, Run: ruleProvAlias,
		Doc: "an entity's default alias is its configuration file's base name: the path between the last slash and the last dot, used only when no alias is configured"})
	register(&Rule{Name: "LINT-USEAFTERCLOSE", Floor: 0, Run: ruleUseAfterClose, Fixture: "fixture.useAfterClose",
		Doc: "no method other than Close is called on a file after a Close that dominates the call"})
	register(&Rule{Name: "PROV-EXT", Floor: 2, Run: ruleProvExt,
		Doc: "extension lists keep their order through every stage: each loop that fills a list of extensions, builders or profile extensions stores element i at index i (or appends in iteration order), one output per input"})
	register(&Rule{Name: "PROV-CONTENT", Floor: 7, Run: ruleProvContent,
		Doc: "every YAML content field is wired to the like-meaning field or constructor argument of the certificate-side structure (no cross-wiring): policy OID, CPS, notice organisation/numbers/text, OCSP location, key identifier, CA flag, path length, naming authority OID/URL/text, profession items/OIDs/registration number/additional info, admission authorities"})
	register(&Rule{Name: "HASH-KILL", Floor: 5, Run: ruleHashKill,
		Doc: "before hashing, exactly these fields of the copy are blanked: Alias and Profile always; Validity.From when the start is run-relative or inherited; Validity.Until in that case unless the end was given as an explicit date; nothing else; and the bytes hashed are json.Marshal of that copy with no re-encoding in between"})
}

// configImporter: the module function with a CertificateContent parameter that the directory walk (its callback, or a
// helper of it) calls for every configuration file.
func (c *Ctx) configImporter() *ssa.Function {
	var importer *ssa.Function
	for cb := range c.walkCallbacks() {
		var find func(from *ssa.Function, d int)
		find = func(from *ssa.Function, d int) {
			for _, ci := range callsIn(from) {
				f := ci.Common().StaticCallee()
				if f == nil || !c.InModule(f) || f.Blocks == nil {
					continue
				}
				for _, p := range f.Params {
					if strings.HasSuffix(typeShort(c, p.Type()), "CertificateContent") && errResultIndex(f.Signature) >= 0 {
						importer = f
					}
				}
				if importer == nil && d < 2 && f.Pkg == cb.Pkg {
					find(f, d+1)
				}
			}
		}
		find(cb, 0)
	}
	return importer
}

func ruleProvMeta(c *Ctx, r *Rep) {
	pv := c.newProv()
	root := c.configImporter()
	if root == nil {
		r.Undecided("anchor:metadata-import", "", "no function imports a configuration on behalf of the directory walk")
		return
	}
	fk := c.FuncKey(root)
	cfgPath := ""
	for _, p := range root.Params {
		if isString(p.Type()) {
			cfgPath = "P(" + fk + "." + p.Name() + ")"
		}
	}
	samePkg := func(g *ssa.Function) bool { return g.Pkg != root.Pkg }
	// pass 1: the content the artifact is decoded from (argument of the call that yields a BuildArtifact), wherever in the
	// importer or its helpers that call sits
	var contents []string
	var decodePos token.Pos
	pv.inFrames(root, 2, samePkg, func(fr frame) {
		for _, ci := range callsIn(fr.fn) {
			f := ci.Common().StaticCallee()
			if f == nil || !c.InModule(f) {
				continue
			}
			res := f.Signature.Results()
			if res.Len() == 1 && strings.HasSuffix(typeShort(c, res.At(0).Type()), "db.BuildArtifact") && len(ci.Common().Args) > 0 {
				decodePos = ci.Pos()
				for _, o := range pv.here(ci.Common().Args[len(ci.Common().Args)-1]) {
					if o != "K(nil)" {
						contents = append(contents, o)
					}
				}
			}
		}
	})
	contents = uniq(contents)
	if !decodePos.IsValid() {
		r.Undecided("anchor:artifact-decoder|"+fk, c.FnPos(root), "no call that decodes a BuildArtifact from the file's content")
		return
	}
	content, reader, openName := "", "", ""
	if len(contents) == 1 && strings.HasPrefix(contents[0], "io.ReadAll(") && strings.HasSuffix(contents[0], ")#0") {
		content = contents[0]
		reader = strings.TrimSuffix(strings.TrimPrefix(content, "io.ReadAll("), ")#0")
	}
	r.Check(content != "", "artifact-from-file|"+fk, c.Pos(decodePos), "the artifact is decoded from what io.ReadAll returned for one file", strings.Join(contents, " , "))
	// all of the file: the reader handed to ReadAll is the opened file itself, not a limited or wrapped view of it
	whole := strings.HasPrefix(reader, "I:") && strings.Contains(reader, ".Open(") && strings.HasSuffix(reader, ")#0") && len(splitTop(reader, ',')) == 1
	if whole {
		inner := reader[strings.Index(reader, ".Open(")+len(".Open(") : len(reader)-len(")#0")]
		parts := splitTop(inner, '|')
		if len(parts) == 2 {
			openName = parts[1]
		} else {
			whole = false
		}
	}
	r.Check(whole, "artifact-read-whole|"+fk, c.Pos(decodePos), "io.ReadAll of the opened artifact file itself (keys and requests of any size are kept)", reader)
	okName := openName != ""
	if okName {
		okName = strings.Contains(openName, ".configFileName[:]") && strings.HasSuffix(openName, "|K(\".pem\"))")
	}
	r.Check(okName, "artifact-file-read|"+fk, c.FnPos(root), "the artifact read is <config path without extension>.pem of this entity", openName)
	// leaves of a branch condition, in the current frame
	var leaves func(v ssa.Value, d int) []string
	leaves = func(v ssa.Value, d int) []string {
		if d > 6 {
			return nil
		}
		switch x := v.(type) {
		case *ssa.BinOp:
			return append(leaves(x.X, d+1), leaves(x.Y, d+1)...)
		case *ssa.UnOp:
			if x.Op == token.NOT {
				return leaves(x.X, d+1)
			}
		case *ssa.Phi:
			var out []string
			for _, e := range x.Edges {
				out = append(out, leaves(e, d+1)...)
			}
			return out
		}
		return pv.here(v)
	}
	// pass 2: the metadata fields, wherever they are stored
	seenStore := map[*ssa.Store]bool{}
	pv.inFrames(root, 2, samePkg, func(fr frame) {
		for _, owner := range []string{"db.Metadata", "filesystem.fsMetadata"} {
			for _, fs := range storesIntoType(c, fr.fn, owner) {
				if seenStore[fs.st] {
					continue
				}
				seenStore[fs.st] = true
				f := fs.field[strings.LastIndex(fs.field, ".")+1:]
				var o []string
				for _, x := range pv.here(fs.val()) {
					if x != "K(nil)" || f != "LastConfigHash" { // a nil stored hash means "none stored"
						o = append(o, x)
					}
				}
				joined := strings.Join(o, " , ")
				switch f {
				case "LastConfigUpdate":
					ok := len(o) == 1 && strings.Contains(o[0], "ModTime(I:io/fs.StatFS.Stat(") && cfgPath != "" && strings.Contains(o[0], "|"+cfgPath+")#0)")
					r.Check(ok, "config-mtime|"+fk, c.Pos(fs.st.Pos()), "ModTime of Stat(configuration path)", joined)
					// recorded whenever the file's time could be had: the time itself does not decide whether it is kept
					dep := ""
					gs := guardsOf(fs.st.Block())
					if fr.site != nil {
						gs = append(gs, guardsOf(fr.site.Block())...)
					}
					for _, g := range gs {
						for _, l := range leaves(g.Cond, 0) {
							if strings.Contains(l, "ModTime(") || strings.Contains(l, "time.Now(") {
								dep = c.Pos(g.Cond.Pos()) + ": " + l
							}
						}
					}
					r.Check(dep == "", "config-mtime-whenever-known|"+fk, c.Pos(fs.st.Pos()), "the configuration's modification time is recorded whatever it is (a time ahead of this machine's clock is still newer than the artifact)", dep)
				case "LastBuild":
					const pre = "I:os.FileInfo.ModTime(I:filesystem.Filesystem.Stat("
					ok := len(o) == 1 && strings.HasPrefix(o[0], pre) && strings.HasSuffix(o[0], ")#0)")
					if ok {
						// same name as the file that is read
						parts := splitTop(o[0][len(pre):len(o[0])-len(")#0)")], '|')
						ok = len(parts) == 2 && parts[1] == openName
					}
					r.Check(ok, "artifact-mtime|"+fk, c.Pos(fs.st.Pos()), "ModTime of Filesystem.Stat(<the artifact file that is read>)", joined)
					// recorded whenever the file could be read: not made to depend on what the file contains
					dep := ""
					gs := guardsOf(fs.st.Block())
					if fr.site != nil {
						gs = append(gs, guardsOf(fr.site.Block())...)
					}
					for _, g := range gs {
						for _, l := range leaves(g.Cond, 0) {
							if content != "" && strings.Contains(l, content) {
								dep = c.Pos(g.If.Pos()) + ": " + l
							}
						}
					}
					r.Check(dep == "", "artifact-mtime-whenever-readable|"+fk, c.Pos(fs.st.Pos()), "the build time is recorded for every readable artifact file, whatever it contains (an artifact without a certificate still has a build time to compare the issuer's with)", dep)
				case "LastConfigHash":
					ok := len(o) == 1 && strings.HasPrefix(o[0], "(*encoding/base64.Encoding).DecodeString(G(encoding/base64.StdEncoding)|") && content != "" && strings.Contains(o[0], strings.TrimSuffix(content, "#0"))
					r.Check(ok, "stored-hash|"+fk, c.Pos(fs.st.Pos()), "StdEncoding.DecodeString of a part of the artifact file's content", joined)
					// stored only where the marker was found: a file without a hash line has no stored hash (nil), which is
					// what the changed-reason tests before it compares - the decoding of nothing is empty, not nil
					searched := ""
					gs := guardsOf(fs.st.Block())
					if fr.site != nil {
						gs = append(gs, guardsOf(fr.site.Block())...)
					}
					for _, g := range gs {
						for _, l := range leaves(g.Cond, 0) {
							for _, fnName := range []string{"bytes.Index(", "strings.Index(", "bytes.Cut(", "strings.Cut(", "bytes.CutPrefix(", "strings.CutPrefix(", "bytes.Contains(", "strings.Contains(", "bytes.HasPrefix(", "strings.HasPrefix("} {
								// the answer of the search itself (the found flag of a Cut), not something computed from what was cut out
								if !strings.HasPrefix(l, fnName) || !strings.Contains(l, "K(\"") || content == "" || !strings.Contains(l, strings.TrimSuffix(content, "#0")) {
									continue
								}
								if strings.Contains(fnName, ".Cut(") && !strings.HasSuffix(l, ")#2") || strings.Contains(fnName, ".CutPrefix(") && !strings.HasSuffix(l, ")#1") {
									continue
								}
								searched = l
							}
						}
					}
					if searched == "" {
						// or the decoding itself happens only where the marker was found (in a helper that answers nil otherwise)
						all, n := true, 0
						for _, g2 := range c.Funcs {
							if g2.Pkg != root.Pkg {
								continue
							}
							for _, dc := range callsIn(g2) {
								if calleeFullName(dc) != "(*encoding/base64.Encoding).DecodeString" {
									continue
								}
								n++
								hit := ""
								for _, g := range guardsOf(dc.Block()) {
									for _, l := range condLeaves(pv, g.Cond, 0) {
										for _, fnName := range []string{"bytes.Index(", "strings.Index(", "bytes.Cut(", "strings.Cut(", "bytes.CutPrefix(", "strings.CutPrefix(", "bytes.Contains(", "strings.Contains(", "bytes.HasPrefix(", "strings.HasPrefix("} {
											if !strings.HasPrefix(l, fnName) || !strings.Contains(l, "K(\"") {
												continue
											}
											if strings.Contains(fnName, ".Cut(") && !strings.HasSuffix(l, ")#2") || strings.Contains(fnName, ".CutPrefix(") && !strings.HasSuffix(l, ")#1") {
												continue
											}
											hit = l
										}
									}
								}
								if hit == "" {
									all = false
								} else {
									searched = "the decoding lies behind " + hit
								}
							}
						}
						if !all || n == 0 {
							searched = ""
						}
					}
					if searched == "" {
						// or the marker is searched by index throughout: then there is no text to decode without a find (the slice
						// is cut at the index found, and LINT-RELIDX / LINT-IDXNEG see to it that a miss is tested first). Only a
						// search that hands back a text either way - Cut, CutPrefix, TrimPrefix - has to have its answer looked at.
						unasked := ""
						cuts := 0
						for _, g2 := range c.Funcs {
							if g2.Pkg != root.Pkg {
								continue
							}
							for _, sc := range callsIn(g2) {
								name := calleeFullName(sc)
								foundIdx := -1
								switch name {
								case "bytes.Cut", "strings.Cut":
									foundIdx = 2
								case "bytes.CutPrefix", "strings.CutPrefix":
									foundIdx = 1
								case "bytes.TrimPrefix", "strings.TrimPrefix":
								default:
									continue
								}
								// the needle: a constant text that is not a line end
								needle := strings.Join(pv.Origins(sc.Common().Args[1]), ",")
								if !strings.Contains(needle, "K(\"") || strings.Contains(needle, "\\n") {
									continue
								}
								// only searches whose text goes on into a base64 decoding
								feeds := false
								for _, dc := range callsIn(g2) {
									if calleeFullName(dc) == "(*encoding/base64.Encoding).DecodeString" && strings.Contains(strings.Join(pv.Origins(dc.Common().Args[1]), ","), name+"(") {
										feeds = true
									}
								}
								if !feeds {
									continue
								}
								cuts++
								asked := false
								if call, isCall := sc.(*ssa.Call); isCall && foundIdx >= 0 && call.Referrers() != nil {
									for _, ref := range *call.Referrers() {
										if ex, isEx := ref.(*ssa.Extract); isEx && ex.Index == foundIdx && ex.Referrers() != nil && len(*ex.Referrers()) > 0 {
											asked = true
										}
									}
								}
								if !asked {
									unasked = c.Pos(sc.Pos()) + ": " + name + " hands back a text whether or not the marker is there, and nothing asks which"
								}
							}
						}
						if unasked == "" {
							if cuts == 0 {
								searched = "the marker is searched by index: no text without a find"
							} else {
								searched = "the answer of every Cut that feeds the decoding is looked at"
							}
						} else {
							searched = ""
						}
						if unasked != "" {
							r.Check(false, "stored-hash-only-when-found|"+fk, c.Pos(fs.st.Pos()), "the store lies behind a test that the marker was found in the file's content (no hash line: no stored hash, and the changed-reason stays out of it)", unasked)
							continue
						}
					}
					r.Check(searched != "", "stored-hash-only-when-found|"+fk, c.Pos(fs.st.Pos()), "the store lies behind a test that the marker was found in the file's content (no hash line: no stored hash, and the changed-reason stays out of it)", orStr(searched, "no condition on the way to the store looks at a search for the marker"))
				}
			}
		}
	})
}

// condLeaves: the operands a branch condition is computed from, rendered by provenance in the function they sit in.
func condLeaves(pv *prov, v ssa.Value, d int) []string {
	if d > 6 {
		return nil
	}
	switch x := v.(type) {
	case *ssa.BinOp:
		return append(condLeaves(pv, x.X, d+1), condLeaves(pv, x.Y, d+1)...)
	case *ssa.UnOp:
		if x.Op == token.NOT {
			return condLeaves(pv, x.X, d+1)
		}
	case *ssa.Phi:
		var out []string
		for _, e := range x.Edges {
			out = append(out, condLeaves(pv, e, d+1)...)
		}
		return out
	}
	return pv.Origins(v)
}

func ruleProvAlias(c *Ctx, r *Rep) {
	pv := c.newProv()
	n := 0
	for _, fn := range c.Funcs {
		if !strings.Contains(fn.Pkg.Pkg.Path(), "filesystem") {
			continue
		}
		for _, fs := range storesIntoType(c, fn, "config.CertificateContent") {
			if fs.field != "Alias" {
				continue
			}
			n++
			fk := c.FuncKey(fn)
			sl, ok := fs.val().(*ssa.Slice)
			popBinds := false
			if !ok {
				// the base name cut out by a one-expression helper of the path
				if call, isCall := fs.val().(*ssa.Call); isCall {
					if g := call.Call.StaticCallee(); g != nil && c.InModule(g) && len(g.Blocks) == 1 {
						if rets := returnsOf(g); len(rets) == 1 && len(retResults(rets[0])) == 1 {
							if hs, isSl := retResults(rets[0])[0].(*ssa.Slice); isSl {
								bind := map[*ssa.Parameter][]string{}
								for i, prm := range g.Params {
									if i < len(call.Call.Args) {
										bind[prm] = pv.Origins(call.Call.Args[i])
									}
								}
								pv.binds = append(pv.binds, bind)
								popBinds = true
								sl, ok = hs, true
							}
						}
					}
				}
			}
			shape := ""
			if !ok {
				shape = "not a sub-string of the path: " + strings.Join(pv.Origins(fs.val()), ",")
			} else {
				base := pv.Origins(sl.X)
				lowOK, highOK := false, false
				if add, isAdd := sl.Low.(*ssa.BinOp); isAdd && add.Op == token.ADD {
					if k, isK := add.Y.(*ssa.Const); isK && k.Int64() == 1 {
						if call, isCall := add.X.(*ssa.Call); isCall && calleeFullName(call) == "strings.LastIndex" {
							if sep, isK := call.Call.Args[1].(*ssa.Const); isK && sep.Value != nil && constant.StringVal(sep.Value) == "/" && strings.Join(pv.Origins(call.Call.Args[0]), ",") == strings.Join(base, ",") {
								lowOK = true
							}
						}
					}
				}
				if call, isCall := sl.High.(*ssa.Call); isCall && calleeFullName(call) == "strings.LastIndex" {
					if sep, isK := call.Call.Args[1].(*ssa.Const); isK && sep.Value != nil && constant.StringVal(sep.Value) == "." && strings.Join(pv.Origins(call.Call.Args[0]), ",") == strings.Join(base, ",") {
						highOK = true
					}
				}
				if !lowOK {
					shape += "start is not LastIndex(path, \"/\")+1; "
				}
				if !highOK {
					shape += "end is not LastIndex(path, \".\"); "
				}
				if len(base) != 1 || !strings.HasPrefix(base[0], "P(") {
					shape += "not the configuration path parameter; "
				}
			}
			if popBinds {
				pv.binds = pv.binds[:len(pv.binds)-1]
			}
			r.Check(shape == "", "default-alias|"+fk, c.Pos(fs.st.Pos()), "path[LastIndex(path, \"/\")+1 : LastIndex(path, \".\")]: the file's base name in whatever directory, whatever the case of the suffix", shape)
			// only when no alias is configured
			guarded := false
			for _, g := range guardsOf(fs.st.Block()) {
				if bin, isBin := g.Cond.(*ssa.BinOp); isBin && bin.Op == token.EQL && g.Truth {
					if call, isCall := bin.X.(*ssa.Call); isCall {
						if bi, isB := call.Call.Value.(*ssa.Builtin); isB && bi.Name() == "len" {
							if f := fieldLoad(call.Call.Args[0]); f != nil && f.Name() == "Alias" {
								guarded = true
							}
						}
					}
				}
			}
			r.Check(guarded, "explicit-alias-wins|"+fk, c.Pos(fs.st.Pos()), "the default is used only when len(Alias) == 0", sprintf("%v", guarded))
		}
	}
	if n == 0 {
		r.Bad("default-alias", "", "the filesystem database derives a default alias", "no store to CertificateContent.Alias in the filesystem package")
	}
}

func ruleUseAfterClose(c *Ctx, r *Rep) {
	n := 0
	for _, fn := range c.Funcs {
		var closes []ssa.CallInstruction
		for _, ci := range callsIn(fn) {
			if _, isDefer := ci.(*ssa.Defer); isDefer {
				continue
			}
			cc := ci.Common()
			if cc.IsInvoke() && cc.Method.Name() == "Close" {
				closes = append(closes, ci)
			} else if f := cc.StaticCallee(); f != nil && f.Name() == "Close" && f.Signature.Recv() != nil {
				closes = append(closes, ci)
			}
		}
		for _, cl := range closes {
			recv := cl.Common().Value
			if !cl.Common().IsInvoke() {
				recv = cl.Common().Args[0]
			}
			for _, ci := range callsIn(fn) {
				cc := ci.Common()
				var r2 ssa.Value
				name := ""
				if cc.IsInvoke() {
					r2, name = cc.Value, cc.Method.Name()
				} else if f := cc.StaticCallee(); f != nil && f.Signature.Recv() != nil && len(cc.Args) > 0 {
					r2, name = cc.Args[0], f.Name()
				}
				if r2 != recv || name == "Close" || name == "" {
					continue
				}
				n++
				if instrDominates(cl, ci) {
					r.Bad("use-after-close|"+c.FuncKey(fn)+"|"+name, c.Pos(ci.Pos()), "no use of a handle after it was closed", name+" is called after the Close at "+c.Pos(cl.Pos()))
				}
			}
		}
	}
	r.Infof("%d method calls on handles that are also closed in the same function", n)
}

func ruleProvExt(c *Ctx, r *Rep) {
	isExtList := func(t types.Type) bool {
		sl, ok := t.Underlying().(*types.Slice)
		if !ok {
			return false
		}
		s := typeShort(c, sl.Elem())
		return s == "crypto/x509/pkix.Extension" || strings.HasSuffix(s, "cert.ExtensionBuilder") || strings.HasSuffix(s, "config.ProfileExtension") || strings.HasSuffix(s, "config.ExtensionConfig")
	}
	n := 0
	for _, fn := range c.Funcs {
		fk := c.FuncKey(fn)
		for _, b := range fn.Blocks {
			for _, ins := range b.Instrs {
				switch x := ins.(type) {
				case *ssa.Store:
					ia, ok := x.Addr.(*ssa.IndexAddr)
					if !ok || !isExtList(ia.X.Type()) || !inLoop(b) {
						continue
					}
					n++
					// the index is the loop's own index: a value that also indexes the source list in this loop
					okIdx := false
					why := "index " + ia.Index.String() + " is not the loop index of the source list"
					for _, b2 := range fn.Blocks {
						for _, i2 := range b2.Instrs {
							if src, isIA := i2.(*ssa.IndexAddr); isIA && src != ia && src.Index == ia.Index && src.X != ia.X {
								okIdx = true
							}
						}
					}
					// the output has the input's length
					r.Check(okIdx, "index-preserving|"+fk, c.Pos(x.Pos()), "out[i] is filled from in[i] with the same i", why)
				case *ssa.Call:
					if bi, ok := x.Call.Value.(*ssa.Builtin); ok && bi.Name() == "append" && isExtList(x.Call.Args[0].Type()) && inLoop(b) {
						n++
						// appended onto the accumulating list itself (order of iteration = order of output)
						acc := false
						if phi, isPhi := x.Call.Args[0].(*ssa.Phi); isPhi {
							for _, e := range phi.Edges {
								if derivesFrom(e, x, map[ssa.Value]bool{}) || e == ssa.Value(x) {
									acc = true
								}
							}
						}
						r.Check(acc, "append-in-order|"+fk, c.Pos(x.Pos()), "elements are appended to the list being built, in iteration order", sprintf("%v", acc))
					}
				}
			}
		}
	}
	if n < 4 && c.Mod == modPath {
		r.Undecided("floor:extension-loops", "", sprintf("%d extension-list loops found, expected at least 4 (parse, profile, builders, compile)", n))
	}
	// the parser hands the decoded extension structs on unchanged: what it appends is the reflected value itself
	pv := c.newProv()
	for _, fn := range c.Funcs {
		usesReflect := false
		for _, ci := range callsIn(fn) {
			if calleeFullName(ci) == "(reflect.Value).Interface" {
				usesReflect = true
			}
		}
		if !usesReflect {
			continue
		}
		for _, ci := range callsIn(fn) {
			bi, ok := ci.Common().Value.(*ssa.Builtin)
			if !ok || bi.Name() != "append" || !isExtList(ci.Common().Args[0].Type()) {
				continue
			}
			var elems []string
			for _, o := range pv.Origins(ci.(*ssa.Call)) {
				if strings.HasPrefix(o, "elem:") {
					elems = append(elems, o)
				}
			}
			ok2 := len(elems) > 0
			for _, e := range elems {
				if !strings.HasPrefix(e, "elem:(reflect.Value).Interface(") || strings.Contains(e, "lit{") {
					ok2 = false
				}
			}
			r.Check(ok2, "parser-passes-through|"+c.FuncKey(fn), c.Pos(ci.Pos()), "the parsed extension list holds the decoded structs themselves (all their fields: raw, critical, content)", strings.Join(head(elems, 3), " , "))
		}
	}
	// the ranges ascend: every range over an extension list is a rangeindex loop (go/ssa emits +1 steps); a reverse loop would use explicit arithmetic
	// and be caught by the index rule above.
}

// wiring table: destination struct field -> the YAML-side field names it must come from.
var contentWiring = map[string][]string{
	"cert.NamingAuthority.Oid":                  {"Oid"},
	"cert.NamingAuthority.URL":                  {"Url"},
	"cert.NamingAuthority.Text":                 {"Text"},
	"cert.ProfessionInfo.NamingAuthority":       {"NamingAuthority"},
	"cert.ProfessionInfo.ProfessionItems":       {"ProfessionItems"},
	"cert.ProfessionInfo.ProfessionOids":        {"ProfessionOids"},
	"cert.ProfessionInfo.RegistrationNumber":    {"RegistrationNumber"},
	"cert.ProfessionInfo.AddProfessionInfo":     {"AddProfessionInfo"},
	"cert.Admissions.AdmissionAuthority":        {"AdmissionAuthority"},
	"cert.Admissions.NamingAuthority":           {"NamingAuthority"},
	"cert.Admissions.ProfessionInfos":           {"ProfessionInfos"},
	"cert.Admission.AdmissionAuthority":         {"AdmissionAuthority"},
	"cert.Admission.Contents":                   {"Admissions"},
	"cert.PolicyInfo.ObjectIdentifier":          {"Oid"},
	"cert.PolicyQualifier.Cps":                  {"Cps"},
	"cert.UserNotice.ExplicitText":              {"Text"},
	"cert.NoticeReference.Organization":         {"Organization"},
	"cert.NoticeReference.NoticeNumbers":        {"Numbers"},
	"cert.AccessDescription.AccessLocation":     {"Ocsp"},
	"cert.AuthorityKeyIdentifier.KeyIdentifier": {"Id"},
}

// contentVia: destination struct types that are built once per element of a YAML list.
var contentVia = map[string]string{
	"cert.ProfessionInfo": ".ProfessionInfos[",
}

var reParamPath = regexp.MustCompile(`P\([^()]*\)((?:\.[A-Za-z0-9_]+|\[\]|\[range\]!next#\d|\[:\]|\[range\])*)`)
var reLastName = regexp.MustCompile(`\.([A-Za-z0-9_]+)(?:\[\]|\[range\]!next#\d|\[:\]|\[range\])*$`)

// lastFields extracts, from every access path rooted in a parameter, the innermost field name.
func lastFields(origins []string) map[string]bool {
	out := map[string]bool{}
	for _, o := range origins {
		for _, m := range reParamPath.FindAllStringSubmatch(o, -1) {
			if lm := reLastName.FindStringSubmatch(m[1]); lm != nil {
				out[lm[1]] = true
			}
		}
	}
	return out
}

func ruleProvContent(c *Ctx, r *Rep) {
	pv := c.newProv()
	seen := map[string]bool{}
	for _, fn := range c.Funcs {
		if !strings.HasSuffix(fn.Pkg.Pkg.Path(), "config/v1") {
			continue
		}
		fk := c.FuncKey(fn)
		// names that travel as values of a string type of the certificate package (general names of kind mail, dns,
		// uri): the text wrapped is the text written
		nName := 0
		for _, b := range fn.Blocks {
			for _, ins := range b.Instrs {
				mi, ok := ins.(*ssa.MakeInterface)
				if !ok {
					continue
				}
				nt, ok := mi.X.Type().(*types.Named)
				if !ok || !c.IsModObj(nt.Obj()) || !isStringish(nt) || strings.HasSuffix(nt.Obj().Pkg().Path(), "config/v1") {
					continue
				}
				if _, isErr := mi.Type().Underlying().(*types.Interface); !isErr || isErrorType(mi.Type()) {
					continue
				}
				nName++
				var rew []string
				for _, x := range pv.Origins(mi.X) {
					rew = append(rew, rewritingCalls(c, pv, x, 0, map[string]bool{})...)
				}
				rew = uniq(rew)
				pos := mi.Pos()
				if pos == token.NoPos {
					pos = mi.X.Pos()
				}
				if pos == token.NoPos {
					pos = fn.Pos()
				}
				r.Check(len(rew) == 0, sprintf("text-as-written|%s|%s#%d", nt.Obj().Name(), fk, nName), c.Pos(pos), "only text-preserving operations between the YAML string and the name handed to the certificate", strings.Join(rew, ", "))
			}
		}
		for _, b := range fn.Blocks {
			for _, ins := range b.Instrs {
				st, ok := ins.(*ssa.Store)
				if !ok {
					continue
				}
				// innermost destination field and its owner type
				fa, ok := st.Addr.(*ssa.FieldAddr)
				if !ok {
					continue
				}
				owner := ownerName(c, fa.X.Type())
				dest := owner + "." + fieldOfAddr(fa).Name()
				want, known := contentWiring[dest]
				if !known {
					continue
				}
				seen[dest] = true
				o := pv.Origins(st.Val)
				// a value produced by a converter call: look at what the converter was applied to;
				// a freshly made list: look at what determines its length (one output per input)
				src := st.Val
				if u, isU := src.(*ssa.UnOp); isU && u.Op == token.MUL {
					src = u.X
				}
				if ex, isEx := src.(*ssa.Extract); isEx && ex.Index == 0 {
					if call, isCall := ex.Tuple.(*ssa.Call); isCall && call.Call.StaticCallee() != nil && c.InModule(call.Call.StaticCallee()) && len(call.Call.Args) > 0 {
						o = pv.Origins(call.Call.Args[0])
					}
				}
				if ms, isMS := src.(*ssa.MakeSlice); isMS {
					o = pv.Origins(ms.Len)
				}
				got := lastFields(o)
				ok2 := len(got) > 0
				for g := range got {
					hit := false
					for _, w := range want {
						if g == w {
							hit = true
						}
					}
					// intermediate names on the path (e.g. Content, UserNotice embedding) are tolerated; wrong leaves are not
					if !hit && isYamlLeaf(g) {
						ok2 = false
					}
				}
				hitAny := false
				for _, w := range want {
					if got[w] {
						hitAny = true
					}
				}
				r.Check(ok2 && hitAny, "wired|"+dest+"|"+fk, c.Pos(st.Pos()), dest+" <- YAML field "+strings.Join(want, "/"), fmtSet(got))
				// text reaches the certificate as written: where the value stored is a string (a name, a URI, a notice), nothing
				// on the way from the YAML string rewrites it (no re-serialisation through a parser, no case folding)
				if sv := unwrapIface(st.Val); isStringish(sv.Type()) {
					var rew []string
					for _, x := range pv.Origins(sv) {
						rew = append(rew, rewritingCalls(c, pv, x, 0, map[string]bool{})...)
					}
					rew = uniq(rew)
					r.Check(len(rew) == 0, "text-as-written|"+dest+"|"+fk, c.Pos(st.Pos()), "only text-preserving operations between the YAML string and the field", strings.Join(rew, ", "))
				}
				// per-element structures take their values from the element being converted, not from the enclosing level
				if via := contentVia[owner]; via != "" {
					okVia := len(o) > 0
					elemT := strings.TrimSuffix(strings.TrimPrefix(via, "."), "s[") // ProfessionInfos[ -> ProfessionInfo
					for _, x := range o {
						if !strings.Contains(x, "P(") || strings.Contains(x, via) {
							continue
						}
						// a per-element converter: the value comes from its parameter of the YAML element type
						fromElem := false
						for _, prm := range fn.Params {
							t := prm.Type()
							if pt, isP := t.Underlying().(*types.Pointer); isP {
								t = pt.Elem()
							}
							if strings.HasSuffix(typeShort(c, t), "v1."+elemT) && strings.Contains(x, "P("+fk+"."+prm.Name()+")") {
								fromElem = true
							}
						}
						if !fromElem {
							okVia = false
						}
					}
					r.Check(okVia, "element-level|"+dest+"|"+fk, c.Pos(st.Pos()), "taken from the list element being converted ("+via+"…)", strings.Join(head(o, 2), " , "))
				}
			}
		}
	}
	for d := range contentWiring {
		if !seen[d] && c.Mod == modPath {
			r.Bad("wired|"+d, "", "the certificate-side field is filled from the configuration", "never stored in the v1 package")
		}
	}
	// constructor arguments: basic constraints
	for _, fn := range c.Funcs {
		if !strings.HasSuffix(fn.Pkg.Pkg.Path(), "config/v1") {
			continue
		}
		for _, ci := range callsIn(fn) {
			f := ci.Common().StaticCallee()
			if f == nil || !strings.HasSuffix(fnPkgPath(f), "generator/cert") {
				continue
			}
			for i, p := range f.Params {
				want := map[string]string{"isCa": "Ca", "pathLen": "PathLen"}[p.Name()]
				if want == "" || !strings.Contains(f.Name(), "BasicConstraints") {
					continue
				}
				got := lastFields(pv.Origins(ci.Common().Args[i]))
				r.Check(len(got) == 1 && got[want], "argument|"+f.Name()+"."+p.Name(), c.Pos(ci.Pos()), p.Name()+" <- content."+want, fmtSet(got))
			}
		}
	}
}

// isYamlLeaf: names that are leaves of the YAML structures (as opposed to containers on the access path).
func isYamlLeaf(name string) bool {
	switch name {
	case "Content", "UserNotice", "Qualifiers", "Admissions", "ProfessionInfos", "NamingAuthority", "AdmissionAuthority":
		return false
	}
	return true
}

func ruleHashKill(c *Ctx, r *Rep) {
	h := c.Method("generator/config", "CertificateContent", "HashSum")
	if h == nil {
		r.Undecided("anchor:HashSum", "", "not found")
		return
	}
	fk := c.FuncKey(h)
	// the local copy of the receiver
	var copyAlloc *ssa.Alloc
	for _, ins := range h.Blocks[0].Instrs {
		if st, ok := ins.(*ssa.Store); ok && st.Val == ssa.Value(h.Params[0]) {
			copyAlloc, _ = st.Addr.(*ssa.Alloc)
		}
	}
	// the marshalling site: json.Marshal in the method itself, or a module helper that marshals its parameter
	var marshal *ssa.Call
	helper := ""
	for _, ci := range callsIn(h) {
		if calleeFullName(ci) == "encoding/json.Marshal" {
			marshal = ci.(*ssa.Call)
		}
	}
	if marshal == nil {
		for _, ci := range callsIn(h) {
			f := ci.Common().StaticCallee()
			if f == nil || !c.InModule(f) || len(f.Params) != 1 {
				continue
			}
			for _, ci2 := range callsIn(f) {
				if calleeFullName(ci2) == "encoding/json.Marshal" && unwrapIface(ci2.Common().Args[0]) == ssa.Value(f.Params[0]) {
					marshal = ci.(*ssa.Call)
					helper = c.FuncKey(f)
				}
			}
		}
	}
	if copyAlloc == nil || marshal == nil {
		r.Undecided("shape:"+fk, c.FnPos(h), "receiver copy or the json.Marshal of it not found")
		return
	}
	// what is marshalled: the copy itself
	okIn := false
	if u, ok := unwrapIface(marshal.Call.Args[0]).(*ssa.UnOp); ok && u.X == ssa.Value(copyAlloc) {
		okIn = true
	}
	r.Check(okIn, "hash-input-is-the-copy|"+fk, c.Pos(marshal.Pos()), "json.Marshal(c) of the blanked copy"+map[bool]string{true: " (through " + helper + ")", false: ""}[helper != ""], marshal.Call.Args[0].String())
	// the bytes hashed are exactly those
	var jsonBytes ssa.Value
	for _, ref := range *marshal.Referrers() {
		if ex, ok := ref.(*ssa.Extract); ok && ex.Index == 0 {
			jsonBytes = ex
		}
	}
	wrote := false
	for _, ci := range callsIn(h) {
		cc := ci.Common()
		if cc.IsInvoke() && cc.Method.Name() == "Write" && typeIs(cc.Value.Type(), "hash", "Hash") {
			wrote = true
			r.Check(cc.Args[0] == jsonBytes, "hashed-bytes|"+fk, c.Pos(ci.Pos()), "the hash is fed the marshalled bytes themselves", cc.Args[0].String())
		}
	}
	if !wrote {
		// a digest helper func([]byte) []byte: New, Write(its parameter), Sum
		for _, ci := range callsIn(h) {
			g := ci.Common().StaticCallee()
			if g == nil || !c.InModule(g) || g.Blocks == nil || len(g.Params) != 1 || len(ci.Common().Args) != 1 {
				continue
			}
			for _, ci2 := range callsIn(g) {
				cc := ci2.Common()
				if cc.IsInvoke() && cc.Method.Name() == "Write" && typeIs(cc.Value.Type(), "hash", "Hash") && cc.Args[0] == ssa.Value(g.Params[0]) {
					wrote = true
					r.Check(ci.Common().Args[0] == jsonBytes, "hashed-bytes|"+fk, c.Pos(ci.Pos()), "the hash is fed the marshalled bytes themselves (through "+c.FuncKey(g)+")", ci.Common().Args[0].String())
				}
			}
		}
	}
	if !wrote {
		// the one-call form: sha1.Sum(bytes), in the method or in a digest helper of one parameter
		oneCall := func(f *ssa.Function, arg ssa.Value) (ssa.CallInstruction, bool) {
			for _, ci := range callsIn(f) {
				name := calleeFullName(ci)
				if strings.HasPrefix(name, "crypto/") && strings.HasSuffix(name, ".Sum") && len(ci.Common().Args) == 1 && ci.Common().Args[0] == arg {
					return ci, true
				}
			}
			return nil, false
		}
		if ci, ok := oneCall(h, jsonBytes); ok {
			wrote = true
			r.Check(true, "hashed-bytes|"+fk, c.Pos(ci.Pos()), "the hash is fed the marshalled bytes themselves", calleeFullName(ci)+"(json bytes)")
		} else {
			for _, ci := range callsIn(h) {
				g := ci.Common().StaticCallee()
				if g == nil || !c.InModule(g) || g.Blocks == nil || len(g.Params) != 1 || len(ci.Common().Args) != 1 {
					continue
				}
				if _, ok := oneCall(g, g.Params[0]); ok {
					wrote = true
					r.Check(ci.Common().Args[0] == jsonBytes, "hashed-bytes|"+fk, c.Pos(ci.Pos()), "the hash is fed the marshalled bytes themselves (through "+c.FuncKey(g)+")", ci.Common().Args[0].String())
				}
			}
		}
	}
	if !wrote {
		r.Bad("hashed-bytes|"+fk, c.FnPos(h), "hash.Write(json bytes) in the hashing method", "not found")
	}
	for f := range c.Graph().Reach(h) {
		for _, ci := range callsIn(f) {
			if n := calleeFullName(ci); n == "encoding/json.Unmarshal" || strings.HasSuffix(n, "json.Decoder).Decode") {
				r.Bad("no-reencoding|"+c.FuncKey(f), c.Pos(ci.Pos()), "the hashed JSON is not decoded and re-encoded (numbers would lose precision)", n)
			}
		}
	}
	// what the copy looks like when it is marshalled, on every path (helpers that return a blanked copy of a sub-struct
	// are walked too): which fields were overwritten, with what, under which flag values
	hw := &hashWalker{c: c, limit: 400}
	outcomes := hw.walkFn(h, copyAlloc, "", marshal)
	if hw.undecided != "" || len(outcomes) == 0 {
		r.Undecided("shape:blanking|"+fk, c.FnPos(h), "cannot follow how the copy is prepared for hashing: "+hw.undecided)
		return
	}
	known := []string{"Validity.IsStatic", "Validity.IsSet", "Validity.IsUntilStatic"}
	badAlways := map[string]string{}
	var badFrom, badUntil, unexpected, badValue []string
	nComp := 0
	for _, oc := range outcomes {
		var free []string
		val := map[string]bool{}
		for _, k := range known {
			if v, ok := oc.atoms[k]; ok {
				val[k] = v
			} else {
				free = append(free, k)
			}
		}
		desc := oc.describe()
		for mask := 0; mask < 1<<len(free); mask++ {
			for i, k := range free {
				val[k] = mask&(1<<i) != 0
			}
			nComp++
			volatile := !(val["Validity.IsStatic"] && val["Validity.IsSet"])
			want := map[string]bool{"Alias": true, "Profile": true}
			if volatile {
				want["Validity.From"] = true
				if !val["Validity.IsUntilStatic"] {
					want["Validity.Until"] = true
				}
			}
			for f, how := range oc.fields {
				if how != "zero" {
					badValue = append(badValue, f+" <- "+how+" ["+desc+"]")
					continue
				}
				if !want[f] {
					switch f {
					case "Validity.From":
						badFrom = append(badFrom, "blanked although the start is an explicit date of this configuration ["+desc+"]")
					case "Validity.Until":
						badUntil = append(badUntil, "blanked although the end is to be kept ["+desc+"]")
					default:
						unexpected = append(unexpected, f)
					}
				}
			}
			for f := range want {
				if oc.fields[f] == "zero" {
					continue
				}
				switch f {
				case "Alias", "Profile":
					badAlways[f] = "not blanked on a path [" + desc + "]"
				case "Validity.From":
					badFrom = append(badFrom, "kept although the start is run-relative or inherited ["+desc+"]")
				case "Validity.Until":
					badUntil = append(badUntil, "kept although start and end are run-relative ["+desc+"]")
				}
			}
		}
	}
	for _, f := range []string{"Alias", "Profile"} {
		r.Check(badAlways[f] == "", "killed-always|"+f, c.FnPos(h), f+" is blanked on every path (the hash does not depend on file name, alias or profile name)", badAlways[f])
	}
	r.Check(len(badFrom) == 0, "killed-when|Validity.From", c.FnPos(h), "From is blanked iff the start is not an explicit date of this configuration: ¬IsStatic ∨ ¬IsSet", strings.Join(head(uniq(badFrom), 2), " ;; "))
	r.Check(len(badUntil) == 0, "killed-when|Validity.Until", c.FnPos(h), "Until is blanked iff the start is run-relative/inherited and the end was not given as an explicit date: (¬IsStatic ∨ ¬IsSet) ∧ ¬IsUntilStatic", strings.Join(head(uniq(badUntil), 2), " ;; "))
	for _, f := range uniq(unexpected) {
		r.Bad("killed-unexpected|"+f, c.FnPos(h), "only Alias, Profile and run-relative validity bounds are blanked", f+" is blanked too: edits of it no longer change the hash")
	}
	for _, b := range head(uniq(badValue), 3) {
		r.Bad("kill-value|"+b[:strings.Index(b, " ")], c.FnPos(h), "fields are only blanked (zero value) before hashing", b)
	}
	r.Check(nComp >= 4, "kill-sites|"+fk, c.FnPos(h), "the blanking was followed on every path to the marshalling", sprintf("%d paths, %d flag completions", len(outcomes), nComp))
}

// hashWalker enumerates the paths of a loop-free function up to a stop instruction and tracks what is stored into the
// fields of one struct value (the copy being prepared).
type hashWalker struct {
	c         *Ctx
	limit     int
	n         int
	undecided string
}

type hashOutcome struct {
	atoms  map[string]bool
	order  []string
	fields map[string]string // dotted path -> "zero" | description of another value
}

func (o *hashOutcome) describe() string { return strings.Join(o.order, " ") }

func (o *hashOutcome) clone() *hashOutcome {
	n := &hashOutcome{atoms: map[string]bool{}, fields: map[string]string{}, order: append([]string{}, o.order...)}
	for k, v := range o.atoms {
		n.atoms[k] = v
	}
	for k, v := range o.fields {
		n.fields[k] = v
	}
	return n
}

func isZeroConst(v ssa.Value) bool {
	k, ok := v.(*ssa.Const)
	if !ok {
		return false
	}
	if k.Value == nil {
		return true
	}
	switch k.Value.Kind() {
	case constant.String:
		return constant.StringVal(k.Value) == ""
	case constant.Bool:
		return !constant.BoolVal(k.Value)
	case constant.Int:
		return k.Int64() == 0
	}
	return false
}

// walkFn walks fn from its entry. obj is the alloc holding the struct under preparation; prefix is the dotted path of
// that struct inside the value finally hashed. The walk ends at stop (a call in fn) or, when stop is nil, at the
// returns of fn (a helper that hands back the prepared struct: the return must be the alloc's content or the untouched
// parameter).
func (w *hashWalker) walkFn(fn *ssa.Function, obj *ssa.Alloc, prefix string, stop ssa.Instruction) []*hashOutcome {
	if hasLoop(fn) {
		w.undecided = c2(w.c, fn) + " has a loop"
		return nil
	}
	var outs []*hashOutcome
	phis := map[*ssa.Phi]ssa.Value{}
	var resolve func(v ssa.Value) (ssa.Value, bool)
	resolve = func(v ssa.Value) (ssa.Value, bool) {
		neg := false
		for i := 0; i < 20; i++ {
			if phi, ok := v.(*ssa.Phi); ok {
				if pv, ok := phis[phi]; ok {
					v = pv
					continue
				}
			}
			if u, ok := v.(*ssa.UnOp); ok && u.Op == token.NOT {
				v, neg = u.X, !neg
				continue
			}
			break
		}
		return v, neg
	}
	pathOf := func(addr ssa.Value) (string, bool) {
		root, path := fieldPathOf(addr)
		if root == ssa.Value(obj) && path != "" {
			if prefix != "" {
				return prefix + "." + path, true
			}
			return path, true
		}
		return "", false
	}
	var walk func(prev, b *ssa.BasicBlock, st *hashOutcome, from int)
	walk = func(prev, b *ssa.BasicBlock, st *hashOutcome, from int) {
		if w.n > w.limit || w.undecided != "" {
			return
		}
		if prev != nil && from == 0 {
			for i, p := range b.Preds {
				if p != prev {
					continue
				}
				for _, ins := range b.Instrs {
					phi, isPhi := ins.(*ssa.Phi)
					if !isPhi {
						break
					}
					v := phi.Edges[i]
					if inner, ok := v.(*ssa.Phi); ok {
						if pv, ok := phis[inner]; ok {
							v = pv
						}
					}
					phis[phi] = v
				}
				break
			}
		}
		for idx := from; idx < len(b.Instrs); idx++ {
			ins := b.Instrs[idx]
			if ins == stop {
				w.n++
				outs = append(outs, st.clone())
				return
			}
			switch x := ins.(type) {
			case *ssa.Store:
				path, mine := pathOf(x.Addr)
				if !mine {
					continue
				}
				if isZeroConst(x.Val) {
					st.fields[path] = "zero"
					continue
				}
				// c.X = helper(c.X): a module method on the sub-struct's value that returns the same type
				if call, ok := x.Val.(*ssa.Call); ok {
					g := call.Call.StaticCallee()
					if g != nil && w.c.InModule(g) && g.Blocks != nil && len(g.Params) == 1 && len(call.Call.Args) == 1 && g.Signature.Results().Len() == 1 && types.Identical(g.Params[0].Type(), g.Signature.Results().At(0).Type()) {
						if ld, ok := call.Call.Args[0].(*ssa.UnOp); ok && ld.Op == token.MUL {
							if ap, mine2 := pathOf(ld.X); mine2 && ap == path {
								// the helper's own copy of its parameter
								var galloc *ssa.Alloc
								for _, gi := range g.Blocks[0].Instrs {
									if gs, ok := gi.(*ssa.Store); ok && gs.Val == ssa.Value(g.Params[0]) {
										galloc, _ = gs.Addr.(*ssa.Alloc)
									}
								}
								sub := &hashWalker{c: w.c, limit: w.limit}
								var subOuts []*hashOutcome
								if galloc != nil {
									subOuts = sub.walkFn(g, galloc, path, nil)
								}
								if sub.undecided != "" || len(subOuts) == 0 {
									w.undecided = "helper " + c2(w.c, g) + ": " + sub.undecided
									return
								}
								for _, so := range subOuts {
									ns := st.clone()
									consistent := true
									for k, v := range so.atoms {
										if cur, ok := ns.atoms[k]; ok && cur != v {
											consistent = false
										}
										ns.atoms[k] = v
									}
									if !consistent {
										continue
									}
									ns.order = append(ns.order, so.order...)
									for k, v := range so.fields {
										ns.fields[k] = v
									}
									walk(prev, b, ns, idx+1)
								}
								return
							}
						}
					}
				}
				st.fields[path] = x.Val.String()
			case *ssa.Return:
				if stop != nil {
					return // a return before the marshalling: not a hashing path (panic paths end elsewhere)
				}
				res := x.Results[0]
				okRet := res == ssa.Value(fn.Params[0]) && len(st.fields) == 0
				if ld, ok := res.(*ssa.UnOp); ok && ld.Op == token.MUL && ld.X == ssa.Value(obj) {
					okRet = true
				}
				if !okRet {
					w.undecided = "returns something other than its prepared copy at " + w.c.Pos(x.Pos())
					return
				}
				w.n++
				outs = append(outs, st.clone())
				return
			case *ssa.If:
				cond, neg := resolve(x.Cond)
				if k, ok := cond.(*ssa.Const); ok && k.Value != nil && k.Value.Kind() == constant.Bool {
					t := constant.BoolVal(k.Value) != neg
					if t {
						walk(b, b.Succs[0], st, 0)
					} else {
						walk(b, b.Succs[1], st, 0)
					}
					return
				}
				key := ""
				if ld, ok := cond.(*ssa.UnOp); ok && ld.Op == token.MUL {
					if p, mine := pathOf(ld.X); mine {
						key = p
					}
				}
				if key == "" {
					key = "?" + cond.String()
				}
				if cur, ok := st.atoms[key]; ok {
					if cur != neg {
						walk(b, b.Succs[0], st, 0)
					} else {
						walk(b, b.Succs[1], st, 0)
					}
					return
				}
				for _, v := range []bool{true, false} {
					ns := st.clone()
					ns.atoms[key] = v
					ns.order = append(ns.order, sprintf("%s=%v", key, v))
					saved := map[*ssa.Phi]ssa.Value{}
					for k2, v2 := range phis {
						saved[k2] = v2
					}
					if v != neg {
						walk(b, b.Succs[0], ns, 0)
					} else {
						walk(b, b.Succs[1], ns, 0)
					}
					phis = saved
				}
				return
			case *ssa.Jump:
				walk(b, b.Succs[0], st, 0)
				return
			case *ssa.Panic:
				return
			}
		}
	}
	walk(nil, fn.Blocks[0], &hashOutcome{atoms: map[string]bool{}, fields: map[string]string{}}, 0)
	return outs
}

func c2(c *Ctx, f *ssa.Function) string { return c.FuncKey(f) }

// flagDNF rewrites a DNF over field-load atoms to the bare flag names.
func flagDNF(d [][]literal) [][]literal {
	re := regexp.MustCompile(`\.([A-Za-z]+)\)?$`)
	var out [][]literal
	for _, conj := range d {
		var ls []literal
		for _, l := range conj {
			name := l.atom
			if m := re.FindStringSubmatch(strings.TrimSuffix(strings.TrimPrefix(name, "cond("), ")")); m != nil {
				name = m[1]
			}
			ls = append(ls, literal{name, l.pos})
		}
		out = append(out, ls)
	}
	return out
}

// isStringish: a string or a named string type (or a byte-free conversion of one).
func isStringish(t types.Type) bool {
	b, ok := t.Underlying().(*types.Basic)
	return ok && b.Info()&types.IsString != 0
}

func init() {
	register(&Rule{Name: "HASH-SOURCE", Floor: 1, Run: ruleHashSource,
		Doc: "what the hash sees of a configuration comes from the configuration document: no field of the configuration other than the two the hash forgets (Alias, Profile) is filled, anywhere outside the configuration readers, from a file name, a directory entry, the clock or the environment"})
}

func ruleHashSource(c *Ctx, r *Rep) {
	pv := c.newProv()
	forgotten := map[string]bool{"Alias": true, "Profile": true}
	n := 0
	for _, fn := range c.Funcs {
		if fn.Pkg == nil {
			continue
		}
		path := fn.Pkg.Pkg.Path()
		if strings.HasSuffix(path, "/config") || strings.Contains(path, "/config/") {
			continue // the readers of the document and the merge: their wiring is PROV-SUBJECT, PROV-EXT, MERGE-COPY
		}
		k := 0
		for _, fs := range storesIntoType(c, fn, "config.CertificateContent") {
			if fs.whole || fs.field == "" {
				continue
			}
			top := fs.field
			if i := strings.Index(top, "."); i >= 0 {
				top = top[:i]
			}
			if forgotten[top] {
				continue
			}
			k++
			n++
			o := strings.Join(pv.Origins(fs.val()), " , ")
			bad := ""
			for _, what := range []string{"P(filesystem.", "time.Now(", "os.", "path/filepath.", "io/fs."} {
				if strings.Contains(o, what) {
					bad = "derived from " + what + "…"
				}
			}
			r.Check(bad == "", sprintf("document-only|%s|%s#%d", top, c.FuncKey(fn), k), c.Pos(fs.st.Pos()), "a hashed field is not filled from where or when the configuration was read", bad)
		}
	}
	r.Ok("scanned", "", "stores into configuration fields outside the config packages", sprintf("%d", n))
}

func init() {
	register(&Rule{Name: "DECODE-DIRECT", Floor: 2, Run: ruleDecodeDirect, Fixture: "fixture.decodeThroughGenericMap",
		Doc: "the text a configuration struct is decoded from is the document itself (or its YAML-to-JSON conversion), never a re-encoding of a decode into map[string]any / any: such a round trip turns every number into a float64, and a serial number above 2^53 comes back as a different number"})
}

// ruleDecodeDirect: at every call of a YAML/JSON decoder whose target is a struct of the module, the bytes decoded do
// not come out of a Marshal call.
func ruleDecodeDirect(c *Ctx, r *Rep) {
	pv := c.newProv()
	decoders := map[string]bool{"encoding/json.Unmarshal": true, "github.com/ghodss/yaml.Unmarshal": true, "sigs.k8s.io/yaml.Unmarshal": true,
		"gopkg.in/yaml.v2.Unmarshal": true, "gopkg.in/yaml.v3.Unmarshal": true, "sigs.k8s.io/yaml.UnmarshalStrict": true}
	n := map[string]int{}
	for _, fn := range c.Funcs {
		for _, ci := range callsIn(fn) {
			if !decoders[calleeFullName(ci)] || len(ci.Common().Args) < 2 {
				continue
			}
			target := unwrapIface(ci.Common().Args[1])
			pt, ok := target.Type().Underlying().(*types.Pointer)
			if !ok {
				continue
			}
			nt, ok := pt.Elem().(*types.Named)
			if !ok || !c.IsModObj(nt.Obj()) {
				continue
			}
			if _, isStruct := nt.Underlying().(*types.Struct); !isStruct {
				continue
			}
			var re []string
			for _, o := range pv.Origins(ci.Common().Args[0]) {
				for _, m := range []string{"encoding/json.Marshal(", "encoding/json.MarshalIndent(", "yaml.Marshal(", "(*encoding/json.Encoder).Encode("} {
					if strings.Contains(o, m) {
						re = append(re, "the bytes come out of "+m+"…)")
					}
				}
			}
			key := nt.Obj().Name() + "|" + c.FuncKey(fn)
			n[key]++
			// all of the document: the bytes are not a cut-out of the text (a version key, a subject or an extension
			// behind the cut would not be there for the decoder, and the file would count as something else)
			part := ""
			seenV := map[ssa.Value]bool{}
			var walk func(v ssa.Value, d int)
			walk = func(v ssa.Value, d int) {
				if d > 8 || seenV[v] || part != "" {
					return
				}
				seenV[v] = true
				switch x := v.(type) {
				case *ssa.Slice:
					if x.Low != nil || x.High != nil {
						if _, isArr := x.X.Type().Underlying().(*types.Pointer); !isArr {
							part = c.Pos(x.Pos()) + ": " + x.String()
							return
						}
					}
					walk(x.X, d+1)
				case *ssa.Convert:
					walk(x.X, d+1)
				case *ssa.ChangeType:
					walk(x.X, d+1)
				case *ssa.Phi:
					for _, e := range x.Edges {
						walk(e, d+1)
					}
				case *ssa.UnOp:
					if al, isAl := x.X.(*ssa.Alloc); isAl && x.Op == token.MUL && al.Referrers() != nil {
						for _, ref := range *al.Referrers() {
							if st, isSt := ref.(*ssa.Store); isSt && st.Addr == ssa.Value(al) {
								walk(st.Val, d+1)
							}
						}
					}
				}
			}
			walk(ci.Common().Args[0], 0)
			r.Check(part == "", sprintf("whole-document|%s#%d", key, n[key]), c.Pos(ci.Pos()), "the decoder is handed all of the text, not a cut-out of it", part)
			r.Check(len(re) == 0, sprintf("document-bytes|%s#%d", key, n[key]), c.Pos(ci.Pos()), "the decoder reads the document (or its YAML-to-JSON conversion), not a re-encoded generic value", strings.Join(uniq(re), "; "))
		}
	}
	// the text a version's reader is handed is the text that was read from the stream: nothing rewrites it on the way
	// (expanding $NAME, replacing tabs, normalising line ends would change what a subject or a raw value says)
	readers := map[string]bool{"io.ReadAll": true, "io/ioutil.ReadAll": true, "(*strings.Builder).String": true, "(*bytes.Buffer).String": true,
		"(*bytes.Buffer).Bytes": true, "io.Copy": true, "os.ReadFile": true, "io/fs.ReadFile": true, "new": true, "P": true, "K": true, "conv:string": true, "conv:[]byte": true}
	reCallName := regexp.MustCompile(`((?:\(\*?[A-Za-z0-9_./]+\)\.)?[A-Za-z_][A-Za-z0-9_./]*)\(`)
	var readerNames []string
	for n := range readers {
		readerNames = append(readerNames, n)
	}
	sort.Slice(readerNames, func(i, j int) bool { return len(readerNames[i]) > len(readerNames[j]) })
	for _, fn := range c.Funcs {
		k := 0
		for _, ci := range callsIn(fn) {
			cc := ci.Common()
			if !cc.IsInvoke() || cc.Method.Name() != "ParseConfiguration" || len(cc.Args) != 1 {
				continue
			}
			k++
			var rewritten []string
			for _, o := range pv.Origins(cc.Args[0]) {
				// blank out the calls that only read, longest names first; what is left and looks like a call rewrites
				rest := o
				for _, name := range readerNames {
					rest = strings.ReplaceAll(rest, name+"(", "§(")
				}
				for _, m := range reCallName.FindAllStringSubmatch(rest, -1) {
					rewritten = append(rewritten, m[1])
				}
			}
			r.Check(len(rewritten) == 0, sprintf("text-as-read|%s#%d", c.FuncKey(fn), k), c.Pos(ci.Pos()), "the text handed to the configuration reader is the text read from the stream, not rewritten on the way", strings.Join(uniq(rewritten), ", "))
		}
	}
}
