package main

import (
	"go/token"
	"go/types"
	"strings"

	"golang.org/x/tools/go/ssa"
)

func init() {
	register(&Rule{Name: "WORKLIST", Floor: 5, Run: ruleWorklist,
		Doc: "the walks over the issuer relation (consistency check, planner) visit every entity reachable from the roots: the work list is seeded with all root entities, is read at an index that starts at 0 and grows by one per round, the walk goes on while the index is below the list's length, and the subscribers of the entity at hand are appended; the consistency check counts one per round from 0 and answers whether the count equals the number of entities"})
}

// carriedRound: phi = [init from outside the loop, next from inside]; ok when exactly one of each.
func carriedRound(phi *ssa.Phi, body map[*ssa.BasicBlock]bool) (init, next ssa.Value, ok bool) {
	for i, e := range phi.Edges {
		if body[phi.Block().Preds[i]] {
			if next != nil && next != e {
				return nil, nil, false
			}
			next = e
		} else {
			if init != nil && init != e {
				return nil, nil, false
			}
			init = e
		}
	}
	return init, next, init != nil && next != nil
}

func isConstInt(v ssa.Value, k int64) bool {
	c, ok := v.(*ssa.Const)
	return ok && c.Value != nil && c.Int64() == k
}

// plusOne: v == base + 1
func plusOne(v, base ssa.Value) bool {
	b, ok := v.(*ssa.BinOp)
	if !ok || b.Op != token.ADD {
		return false
	}
	return b.X == base && isConstInt(b.Y, 1) || b.Y == base && isConstInt(b.X, 1)
}

func invokeOf(v ssa.Value, method string) *ssa.Call {
	call, ok := v.(*ssa.Call)
	if ok && call.Call.IsInvoke() && call.Call.Method.Name() == method {
		return call
	}
	return nil
}

// appendOf: v == append(base, more...) : (base, more)
func appendOf(v ssa.Value) (ssa.Value, ssa.Value, bool) {
	call, ok := v.(*ssa.Call)
	if !ok {
		return nil, nil, false
	}
	if b, ok := call.Call.Value.(*ssa.Builtin); !ok || b.Name() != "append" || len(call.Call.Args) != 2 {
		return nil, nil, false
	}
	return call.Call.Args[0], call.Call.Args[1], true
}

func ruleWorklist(c *Ctx, r *Rep) {
	found := 0
	for _, fn := range c.Funcs {
		loops := naturalLoops(fn)
		for _, ci := range callsIn(fn) {
			subs := invokeOf(valueOfCall(ci), "GetSubscribers")
			if subs == nil || len(subs.Call.Args) != 1 {
				continue
			}
			// the innermost loop around the call
			var header *ssa.BasicBlock
			var body map[*ssa.BasicBlock]bool
			for h, bd := range loops {
				if bd[subs.Block()] && (body == nil || len(bd) < len(body)) {
					header, body = h, bd
				}
			}
			if header == nil {
				continue // not a loop-driven walk
			}
			// the entity at hand: an element of a loop-carried list
			load, ok := subs.Call.Args[0].(*ssa.UnOp)
			if !ok || load.Op != token.MUL {
				continue
			}
			ia, ok := load.X.(*ssa.IndexAddr)
			if !ok {
				continue
			}
			list, ok := ia.X.(*ssa.Phi)
			if !ok || list.Block() != header {
				// the entity comes from a list that does not change round the loop: nothing is appended to it
				if _, isSlice := ia.X.Type().Underlying().(*types.Slice); isSlice {
					if _, isIdxPhi := ia.Index.(*ssa.Phi); isIdxPhi {
						found++
						r.Bad("subscribers-appended|"+c.FuncKey(fn), c.Pos(subs.Pos()), "the subscribers of the entity at hand are appended to the list", "the list read from is not extended in the loop")
					}
				}
				continue
			}
			found++
			fk := c.FuncKey(fn)
			pos := c.Pos(subs.Pos())
			linit, lnext, okL := carriedRound(list, body)
			if !okL {
				r.Undecided("shape:list|"+fk, pos, "the work list has more than one way into or round the loop")
				continue
			}
			// seeded with the roots
			seeded := false
			for v, d := linit, 0; v != nil && d < 6; d++ {
				if invokeOf(v, "RootEntities") != nil {
					seeded = true
					break
				}
				base, more, isApp := appendOf(v)
				if !isApp {
					break
				}
				if invokeOf(more, "RootEntities") != nil {
					seeded = true
					break
				}
				v = base
			}
			r.Check(seeded, "seeded-with-roots|"+fk, pos, "the list starts as all of RootEntities()", sprintf("%v", seeded))
			// subscribers appended
			appended := false
			for v, d := lnext, 0; v != nil && d < 6; d++ {
				base, more, isApp := appendOf(v)
				if !isApp {
					break
				}
				if more == ssa.Value(subs) {
					appended = true
				}
				if base == ssa.Value(list) {
					break
				}
				v = base
			}
			r.Check(appended, "subscribers-appended|"+fk, pos, "the subscribers of the entity at hand are appended to the list", sprintf("%v", appended))
			// the index
			switch idx := ia.Index.(type) {
			case *ssa.Phi:
				iinit, inext, okI := carriedRound(idx, body)
				if idx.Block() != header || !okI {
					r.Undecided("shape:index|"+fk, pos, "the index is not carried round this loop")
					continue
				}
				r.Check(isConstInt(iinit, 0), "index-start|"+fk, pos, "the first entity read is the first of the list", iinit.String())
				r.Check(plusOne(inext, idx), "index-step|"+fk, pos, "the index grows by one per round", inext.String())
				// the loop condition
				iff, _ := header.Instrs[len(header.Instrs)-1].(*ssa.If)
				okCond, how := false, "no comparison of the index with the length of the list at the loop head"
				if iff != nil {
					if bin, ok := iff.Cond.(*ssa.BinOp); ok {
						lx, isLx := lenOperand(bin.X)
						ly, isLy := lenOperand(bin.Y)
						inBody := body[header.Succs[0]] // the true edge stays in the loop
						switch {
						case bin.X == ssa.Value(idx) && isLy && ly == ssa.Value(list):
							how = "index " + bin.Op.String() + " len(list)"
							okCond = inBody && (bin.Op == token.LSS || bin.Op == token.NEQ) || !inBody && (bin.Op == token.GEQ || bin.Op == token.EQL)
						case bin.Y == ssa.Value(idx) && isLx && lx == ssa.Value(list):
							how = "len(list) " + bin.Op.String() + " index"
							okCond = inBody && (bin.Op == token.GTR || bin.Op == token.NEQ) || !inBody && (bin.Op == token.LEQ || bin.Op == token.EQL)
						}
					}
				}
				r.Check(okCond, "continue-while-unvisited|"+fk, pos, "the walk goes on exactly while index < len(list)", how)
			default:
				r.Undecided("shape:index|"+fk, pos, "the entity at hand is not read at a loop-carried index")
				continue
			}
			// a counter compared with the number of entities (the consistency check)
			for _, ins := range header.Instrs {
				cnt, ok := ins.(*ssa.Phi)
				if !ok || cnt == list || cnt == ia.Index {
					continue
				}
				if b, isInt := cnt.Type().Underlying().(*types.Basic); !isInt || b.Info()&types.IsInteger == 0 {
					continue
				}
				// compared with NumEntities() after the loop?
				var cmps []*ssa.BinOp
				for _, ref := range *cnt.Referrers() {
					if bin, ok := ref.(*ssa.BinOp); ok && !body[bin.Block()] {
						other := bin.Y
						if other == ssa.Value(cnt) {
							other = bin.X
						}
						if invokeOf(other, "NumEntities") != nil {
							cmps = append(cmps, bin)
						}
					}
				}
				if len(cmps) == 0 {
					continue
				}
				cinit, cnext, okC := carriedRound(cnt, body)
				if !okC {
					r.Undecided("shape:counter|"+fk, pos, "the counter has more than one way into or round the loop")
					continue
				}
				r.Check(isConstInt(cinit, 0), "count-start|"+fk, pos, "the count starts at 0", cinit.String())
				r.Check(plusOne(cnext, cnt), "count-step|"+fk, pos, "one is counted per entity visited", cnext.String())
				// the answer of the function
				for _, ret := range returnsOf(fn) {
					res := retResults(ret)
					if len(res) != 1 {
						continue
					}
					okAns := false
					how := res[0].String()
					for _, pe := range phiEdges(res[0], ret.Block()) {
						if bin, ok := pe.Val.(*ssa.BinOp); ok {
							for _, cmpv := range cmps {
								if bin == cmpv {
									okAns = bin.Op == token.EQL
									how = "count " + bin.Op.String() + " NumEntities()"
								}
							}
						}
					}
					r.Check(okAns, "answer|"+fk, c.Pos(ret.Pos()), "consistent exactly when the count equals the number of entities", how)
				}
			}
		}
	}
	if found == 0 {
		r.Undecided("anchor:work-list", "", "no loop reads an entity from a loop-carried list and asks for its subscribers")
	}
}

// valueOfCall: the call as a value (nil for go/defer).
func valueOfCall(ci ssa.CallInstruction) ssa.Value {
	v, _ := ci.(*ssa.Call)
	if v == nil {
		return nil
	}
	return v
}

var _ = strings.HasPrefix
