package main

import (
	"crypto/sha256"
	"encoding/json"
	"fmt"
	"os"
	"path/filepath"
	"sort"
	"strings"
)

// A Mutant is one edit of the repository applied in memory (packages.Config.Overlay):
// kind "mutant" must make the named rule fire on the named instance, kind
// "equivalent" keeps behaviour and must leave all of the property's rules silent.
type Mutant struct {
	ID      string   `json:"id"`
	Prop    string   `json:"property"`
	Kind    string   `json:"kind"` // mutant | equivalent
	File    string   `json:"file"` // relative to the repository
	Find    string   `json:"find"`
	Replace string   `json:"replace"`
	Edits   []Edit   `json:"edits,omitempty"` // further edits (same or other files)
	Rules   []string `json:"rules"`           // rules expected to fire (mutant) / checked to stay silent (equivalent; empty = all of the property)
	Expect  string   `json:"expect"`          // substring of the construct key that must be reported
	Note    string   `json:"note,omitempty"`
	Whole   []Whole  `json:"whole,omitempty"` // whole-file replacements (independently written refactorings)
}

// Whole replaces one repository file by a stored variant, provided the file is still the one the variant was derived from.
type Whole struct {
	File string `json:"file"` // relative to the repository
	With string `json:"with"` // relative to /verif
	Base string `json:"base"` // sha256 of the repository file the variant was made from
}

type Edit struct {
	File    string `json:"file"`
	Find    string `json:"find"`
	Replace string `json:"replace"`
}

func loadMutants(prop string) ([]Mutant, error) {
	files, _ := filepath.Glob(filepath.Join(verifDir, "mutants", "*.json"))
	sort.Strings(files)
	var out []Mutant
	for _, f := range files {
		b, err := os.ReadFile(f)
		if err != nil {
			return nil, err
		}
		var ms []Mutant
		if err := json.Unmarshal(b, &ms); err != nil {
			return nil, fmt.Errorf("%s: %v", f, err)
		}
		for _, m := range ms {
			// equivalents filed under "EQ" apply to every property: they must leave all of its rules silent
			if prop == "all" || m.Prop == prop || (m.Prop == "EQ" && m.Kind == "equivalent") {
				if m.Prop == "EQ" && prop != "all" && prop != "EQ" {
					m.Rules = nil
					for _, p := range properties {
						if p.ID == prop {
							m.Rules = p.Rules
						}
					}
				}
				out = append(out, m)
			}
		}
	}
	return out, nil
}

// runSelfTest applies each mutant as an overlay and re-runs the responsible rules.
// Results are evidence about the checker; they never produce a VIOLATION.
func runSelfTest(repo, prop string, print bool, out map[string]any) int {
	ms, err := loadMutants(prop)
	if err != nil {
		fmt.Println("self-test:", err)
		return 2
	}
	type result struct {
		ID      string   `json:"id"`
		Kind    string   `json:"kind"`
		Outcome string   `json:"outcome"` // detected | missed | silent | false_alarm_on_equivalent | skipped | load_error
		Fired   []string `json:"fired,omitempty"`
	}
	var results []result
	tally := map[string]int{}
	known, _ := loadKnown(filepath.Join(verifDir, "KNOWN_FINDINGS.txt"))
	isKnown := func(id string) bool {
		for _, k := range known {
			if k.Key == id {
				return true
			}
		}
		return false
	}
	for _, m := range ms {
		res := result{ID: m.ID, Kind: m.Kind}
		overlay := map[string][]byte{}
		skipped := ""
		edits := append([]Edit{{m.File, m.Find, m.Replace}}, m.Edits...)
		if m.File == "" {
			edits = m.Edits
		}
		for _, w := range m.Whole {
			abs := filepath.Join(repo, w.File)
			if w.Base == "" {
				// a file the variant adds: it must not exist yet
				if _, err := os.Stat(abs); err == nil {
					skipped = "a file this variant adds exists already: " + w.File
					break
				}
				repl, err := os.ReadFile(filepath.Join(verifDir, w.With))
				if err != nil {
					skipped = err.Error()
					break
				}
				overlay[abs] = repl
				continue
			}
			cur, err := os.ReadFile(abs)
			if err != nil {
				skipped = err.Error()
				break
			}
			if fmt.Sprintf("%x", sha256.Sum256(cur)) != w.Base {
				skipped = "the file this variant was derived from has changed: " + w.File
				break
			}
			repl, err := os.ReadFile(filepath.Join(verifDir, w.With))
			if err != nil {
				skipped = err.Error()
				break
			}
			overlay[abs] = repl
		}
		for _, e := range edits {
			if skipped != "" {
				break
			}
			abs := filepath.Join(repo, e.File)
			src, ok := overlay[abs]
			if !ok {
				src, err = os.ReadFile(abs)
				if err != nil {
					skipped = err.Error()
					break
				}
			}
			if strings.Count(string(src), e.Find) != 1 {
				skipped = fmt.Sprintf("anchor text occurs %d times in %s", strings.Count(string(src), e.Find), e.File)
				break
			}
			overlay[abs] = []byte(strings.Replace(string(src), e.Find, e.Replace, 1))
		}
		if skipped != "" {
			res.Outcome = "skipped"
			res.Fired = []string{skipped}
		} else {
			c, err := Load(repo, modPath, overlay, nil)
			if err != nil {
				res.Outcome = "load_error"
				res.Fired = []string{err.Error()}
			} else {
				ruleNames := m.Rules
				if len(ruleNames) == 0 {
					for _, p := range properties {
						if p.ID == m.Prop {
							ruleNames = p.Rules
						}
					}
				}
				if len(ruleNames) == 0 { // "EQ" run on its own: every registered rule
					for n := range rules {
						ruleNames = append(ruleNames, n)
					}
					sort.Strings(ruleNames)
				}
				hit := false
				for _, rn := range ruleNames {
					rule := rules[rn]
					if rule == nil {
						res.Fired = append(res.Fired, "rule not implemented: "+rn)
						continue
					}
					rep := RunRule(c, rule)
					if len(rep.Obs) < rule.Floor {
						rep.Undecided("floor", "", "below floor")
					}
					for _, o := range rep.Obs {
						if (o.Status == "violation" && !isKnown(o.ID())) || o.Status == "undecided" {
							res.Fired = append(res.Fired, o.Status+" "+o.ID())
							if strings.Contains(o.ID(), m.Expect) {
								hit = true
							}
						}
					}
				}
				switch {
				case m.Kind == "equivalent" && len(res.Fired) == 0:
					res.Outcome = "silent"
				case m.Kind == "equivalent":
					res.Outcome = "false_alarm_on_equivalent"
				case hit:
					res.Outcome = "detected"
				default:
					res.Outcome = "missed"
				}
			}
		}
		tally[res.Outcome]++
		results = append(results, res)
		if print {
			fmt.Printf("%-28s %-10s %-26s %s\n", m.ID, m.Kind, res.Outcome, strings.Join(head(res.Fired, 4), "; "))
		}
	}
	if out != nil {
		out["mutants"] = results
		out["tally"] = tally
	}
	if print {
		fmt.Println(tally)
	}
	if tally["missed"]+tally["false_alarm_on_equivalent"]+tally["load_error"] > 0 {
		return 1
	}
	return 0
}

func head(s []string, n int) []string {
	if len(s) > n {
		return append(append([]string{}, s[:n]...), fmt.Sprintf("… %d more", len(s)-n))
	}
	return s
}
