package main

import (
	"encoding/json"
	"fmt"
	"go/constant"
	"go/token"
	"go/types"
	"os"
	"path/filepath"
	"sort"
	"strings"

	"golang.org/x/tools/go/ssa"
	"golang.org/x/tools/go/ssa/ssautil"
)

// ---- reference tables -------------------------------------------------------

type refTables map[string]json.RawMessage

var refsCache refTables

func refs() refTables {
	if refsCache != nil {
		return refsCache
	}
	b, err := os.ReadFile(filepath.Join(verifDir, "refs", "tables.json"))
	if err != nil {
		panic("reference tables: " + err.Error())
	}
	if err := json.Unmarshal(b, &refsCache); err != nil {
		panic("reference tables: " + err.Error())
	}
	return refsCache
}

func refList(name string) []map[string]any {
	var out []map[string]any
	if err := json.Unmarshal(refs()[name], &out); err != nil {
		panic("reference table " + name + ": " + err.Error())
	}
	return out
}

func refStrings(name string) []string {
	var out []string
	if err := json.Unmarshal(refs()[name], &out); err != nil {
		panic("reference table " + name + ": " + err.Error())
	}
	return out
}

func rs(m map[string]any, k string) string {
	s, _ := m[k].(string)
	return s
}
func ri(m map[string]any, k string) int {
	f, _ := m[k].(float64)
	return int(f)
}
func rb(m map[string]any, k string) bool {
	b, _ := m[k].(bool)
	return b
}

// ---- constants ---------------------------------------------------------------

// constName finds the name of the constant of named type t with value v, as
// declared in t's package ("crypto.SHA1", "cert.RSA1024"); "" if none.
func (c *Ctx) constName(t types.Type, v constant.Value) string {
	n, ok := t.(*types.Named)
	if !ok || n.Obj().Pkg() == nil || v == nil {
		return ""
	}
	sc := n.Obj().Pkg().Scope()
	var names []string
	for _, name := range sc.Names() {
		if k, ok := sc.Lookup(name).(*types.Const); ok && types.Identical(k.Type(), t) && constant.Compare(k.Val(), token.EQL, v) {
			names = append(names, objName(c, k))
		}
	}
	sort.Strings(names)
	if len(names) == 0 {
		return ""
	}
	return names[0]
}

// constsOf lists the constants of named type t declared in its package, by value.
func (c *Ctx) constsOf(t *types.Named) map[string]*types.Const {
	out := map[string]*types.Const{}
	sc := t.Obj().Pkg().Scope()
	for _, name := range sc.Names() {
		if k, ok := sc.Lookup(name).(*types.Const); ok && types.Identical(k.Type(), t) {
			out[name] = k
		}
	}
	return out
}

// ---- CFG helpers ---------------------------------------------------------------

// noReturnCallee reports calls after which control does not continue. go/ssa
// leaves a fall-through edge after them.
func noReturnCall(ins ssa.Instruction) bool {
	call, ok := ins.(*ssa.Call)
	if !ok {
		return false
	}
	f := call.Call.StaticCallee()
	if f == nil || f.Pkg == nil {
		return false
	}
	switch f.Pkg.Pkg.Path() + "." + f.Name() {
	case "os.Exit", "log.Fatal", "log.Fatalf", "log.Fatalln", "runtime.Goexit":
		return true
	}
	return neverReturns(f)
}

// neverReturns: a function with a body none of whose reachable blocks returns - every way through it ends in a call
// that does not come back or in a panic (`func exitWithError(...) { fmt.Printf(...); os.Exit(1) }`). Recursion counts
// as returning.
var neverReturnsMemo = map[*ssa.Function]int{} // 1 in progress or returns, 2 never returns

func neverReturns(f *ssa.Function) bool {
	if f.Blocks == nil || f.Recover != nil {
		return false
	}
	if st := neverReturnsMemo[f]; st != 0 {
		return st == 2
	}
	neverReturnsMemo[f] = 1
	for b := range reachableFrom(f.Blocks[0], nil) {
		if _, ok := lastInstr(b).(*ssa.Return); ok {
			stops := false
			for _, ins := range b.Instrs {
				if noReturnCall(ins) {
					stops = true
				}
			}
			if !stops {
				return false
			}
		}
	}
	neverReturnsMemo[f] = 2
	return true
}

// exitStatusOf: the constant status a call that does not come back ends the process with: os.Exit(k) itself, log.Fatal*
// (1), or a module function that never returns and ends with the same status on every way through it. ok is false when
// the status is not one constant.
func exitStatusOf(ins ssa.Instruction, depth int) (int64, bool) {
	call, isCall := ins.(*ssa.Call)
	if !isCall || depth > 3 {
		return 0, false
	}
	f := call.Call.StaticCallee()
	if f == nil || f.Pkg == nil {
		return 0, false
	}
	switch f.Pkg.Pkg.Path() + "." + f.Name() {
	case "os.Exit":
		if k, ok := call.Call.Args[0].(*ssa.Const); ok && k.Value != nil {
			return k.Int64(), true
		}
		return 0, false
	case "log.Fatal", "log.Fatalf", "log.Fatalln":
		return 1, true
	}
	if !neverReturns(f) {
		return 0, false
	}
	var status int64
	seen := false
	for b := range reachableFrom(f.Blocks[0], nil) {
		for _, in2 := range b.Instrs {
			if !noReturnCall(in2) {
				continue
			}
			k, ok := exitStatusOf(in2, depth+1)
			if !ok || seen && k != status {
				return 0, false
			}
			status, seen = k, true
		}
		if _, isPanic := lastInstr(b).(*ssa.Panic); isPanic {
			if seen && status != 2 {
				return 0, false
			}
			status, seen = 2, true
		}
	}
	return status, seen
}

// succs returns the successors of b with edges after no-return calls and panics cut.
func succs(b *ssa.BasicBlock) []*ssa.BasicBlock {
	for _, ins := range b.Instrs {
		if noReturnCall(ins) {
			return nil
		}
	}
	return b.Succs
}

// reachableFrom computes the blocks reachable from start (inclusive) honouring
// the no-return cut and never passing through the blocks in `avoid`.
func reachableFrom(start *ssa.BasicBlock, avoid map[*ssa.BasicBlock]bool) map[*ssa.BasicBlock]bool {
	seen := map[*ssa.BasicBlock]bool{}
	var walk func(b *ssa.BasicBlock)
	walk = func(b *ssa.BasicBlock) {
		if seen[b] || avoid[b] {
			return
		}
		seen[b] = true
		for _, s := range succs(b) {
			walk(s)
		}
	}
	walk(start)
	return seen
}

// edge identifies a CFG edge.
type edge struct{ from, to *ssa.BasicBlock }

// reachableAvoidingEdges: blocks reachable from the function entry when the given edges are removed.
func reachableAvoidingEdges(fn *ssa.Function, cut map[edge]bool) map[*ssa.BasicBlock]bool {
	seen := map[*ssa.BasicBlock]bool{}
	var walk func(b *ssa.BasicBlock)
	walk = func(b *ssa.BasicBlock) {
		if seen[b] {
			return
		}
		seen[b] = true
		for _, s := range succs(b) {
			if !cut[edge{b, s}] {
				walk(s)
			}
		}
	}
	if len(fn.Blocks) > 0 {
		walk(fn.Blocks[0])
	}
	return seen
}

// instrBlockIndex returns the index of ins within its block.
func instrIndex(ins ssa.Instruction) int {
	for i, x := range ins.Block().Instrs {
		if x == ins {
			return i
		}
	}
	return -1
}

// instrDominates: a executes before b on every path to b (same function).
func instrDominates(a, b ssa.Instruction) bool {
	if a.Block() == b.Block() {
		return instrIndex(a) < instrIndex(b)
	}
	return a.Block().Dominates(b.Block())
}

// canReachInstr: some path leads from a to b (after a, honouring the no-return cut).
func canReachInstr(a, b ssa.Instruction) bool {
	if a.Block() == b.Block() && instrIndex(a) < instrIndex(b) {
		return true
	}
	seen := map[*ssa.BasicBlock]bool{}
	var walk func(blk *ssa.BasicBlock) bool
	walk = func(blk *ssa.BasicBlock) bool {
		if blk == b.Block() {
			return true
		}
		if seen[blk] {
			return false
		}
		seen[blk] = true
		for _, s := range succs(blk) {
			if walk(s) {
				return true
			}
		}
		return false
	}
	for _, ins := range a.Block().Instrs[instrIndex(a)+1:] {
		if noReturnCall(ins) {
			return false
		}
	}
	for _, s := range a.Block().Succs {
		if walk(s) {
			return true
		}
	}
	return false
}

// trueEdgeDominates reports whether block b is only reachable through the
// given successor (0 = true, 1 = false) of the If that ends block cond.
func edgeDominates(cond *ssa.BasicBlock, succIdx int, b *ssa.BasicBlock) bool {
	if len(cond.Succs) != 2 {
		return false
	}
	target := cond.Succs[succIdx]
	other := cond.Succs[1-succIdx]
	if target == other {
		return false
	}
	// b must be dominated by target, and target must be entered only from cond
	// (otherwise "dominated by target" does not imply "came through this edge").
	if !target.Dominates(b) {
		return false
	}
	for _, p := range target.Preds {
		if p != cond && !target.Dominates(p) {
			return false
		}
	}
	return true
}

// guard is one branch condition known on every path to a block.
type guard struct {
	If    *ssa.If
	Cond  ssa.Value
	Truth bool
}

// guardsOf lists the branch conditions that hold on every path from entry to b
// (walking the dominator tree).
func guardsOf(b *ssa.BasicBlock) []guard {
	var out []guard
	for d := b.Idom(); d != nil; d = d.Idom() {
		if len(d.Instrs) == 0 {
			continue
		}
		iff, ok := d.Instrs[len(d.Instrs)-1].(*ssa.If)
		if !ok {
			continue
		}
		if edgeDominates(d, 0, b) {
			out = append(out, guard{iff, iff.Cond, true})
			out = append(out, boolVarFacts(iff, iff.Cond, true, 0)...)
		} else if edgeDominates(d, 1, b) {
			out = append(out, guard{iff, iff.Cond, false})
			out = append(out, boolVarFacts(iff, iff.Cond, false, 0)...)
		}
	}
	return out
}

// boolVarFacts: what a test of a boolean variable says about the conditions it was computed from. A variable set by
// `a && b && c` is a phi with the constant false on every edge but the last; known to be true, the value arrived over
// that last edge, so c holds and so does everything known in the block it came from (a and b). Dually for `||` and false.
func boolVarFacts(iff *ssa.If, cond ssa.Value, truth bool, depth int) []guard {
	if depth > 4 {
		return nil
	}
	for {
		u, ok := cond.(*ssa.UnOp)
		if !ok || u.Op != token.NOT {
			break
		}
		cond, truth = u.X, !truth
	}
	phi, ok := cond.(*ssa.Phi)
	if !ok {
		return nil
	}
	if bt, isB := phi.Type().Underlying().(*types.Basic); !isB || bt.Kind() != types.Bool {
		return nil
	}
	via := -1
	for i, e := range phi.Edges {
		if k, isK := e.(*ssa.Const); isK && k.Value != nil && k.Value.Kind() == constant.Bool && constant.BoolVal(k.Value) != truth {
			continue // this edge carries the other value
		}
		if via >= 0 {
			return nil // more than one way to this value
		}
		via = i
	}
	if via < 0 {
		return nil
	}
	var out []guard
	from := phi.Block().Preds[via]
	if _, isK := phi.Edges[via].(*ssa.Const); !isK {
		out = append(out, guard{iff, phi.Edges[via], truth})
		out = append(out, boolVarFacts(iff, phi.Edges[via], truth, depth+1)...)
	}
	// what is known where the value came from; tests that already dominate the phi's block are known anyway
	for _, g := range guardsOfRaw(from) {
		if g.If.Block().Dominates(phi.Block()) && g.If.Block() != from {
			// still useful only if it is part of the expression: keep those between the phi's dominator and the source
			if !phi.Block().Idom().Dominates(g.If.Block()) {
				continue
			}
		}
		out = append(out, guard{iff, g.Cond, g.Truth})
	}
	if lastIf, isIf := from.Instrs[len(from.Instrs)-1].(*ssa.If); isIf {
		// the source block itself branches: the edge into the phi's block
		for i, sx := range from.Succs {
			if sx == phi.Block() && from.Succs[1-i] != phi.Block() {
				out = append(out, guard{iff, lastIf.Cond, i == 0})
			}
		}
	}
	return out
}

// guardsOfRaw: the branch conditions on every path to b, without what boolean variables say.
func guardsOfRaw(b *ssa.BasicBlock) []guard {
	var out []guard
	for d := b.Idom(); d != nil; d = d.Idom() {
		if len(d.Instrs) == 0 {
			continue
		}
		iff, ok := d.Instrs[len(d.Instrs)-1].(*ssa.If)
		if !ok {
			continue
		}
		if edgeDominates(d, 0, b) {
			out = append(out, guard{iff, iff.Cond, true})
		} else if edgeDominates(d, 1, b) {
			out = append(out, guard{iff, iff.Cond, false})
		}
	}
	return out
}

// caseLabel finds the constant the tag value is known to equal in block b:
// the nearest dominating `tag == const` whose true edge dominates b.
// tagMatch decides whether an SSA value is "the tag".
func caseLabel(b *ssa.BasicBlock, tagMatch func(ssa.Value) bool) (*ssa.Const, bool) {
	for _, g := range guardsOf(b) {
		bin, ok := g.Cond.(*ssa.BinOp)
		if !ok || bin.Op != token.EQL || !g.Truth {
			continue
		}
		if k, ok := bin.Y.(*ssa.Const); ok && tagMatch(bin.X) {
			return k, true
		}
		if k, ok := bin.X.(*ssa.Const); ok && tagMatch(bin.Y) {
			return k, true
		}
	}
	return nil, false
}

// phiEdges expands v through Phi nodes into (incoming value, predecessor block) pairs.
// For a non-Phi value the single pair (v, def) is returned where def is the block given.
type phiEdge struct {
	Val  ssa.Value
	From *ssa.BasicBlock
}

func phiEdges(v ssa.Value, at *ssa.BasicBlock) []phiEdge {
	seen := map[*ssa.Phi]bool{}
	var out []phiEdge
	var walk func(v ssa.Value, at *ssa.BasicBlock)
	walk = func(v ssa.Value, at *ssa.BasicBlock) {
		if p, ok := v.(*ssa.Phi); ok {
			if seen[p] {
				return
			}
			seen[p] = true
			for i, e := range p.Edges {
				walk(e, p.Block().Preds[i])
			}
			return
		}
		out = append(out, phiEdge{v, at})
	}
	walk(v, at)
	return out
}

// returnsOf lists the Return instructions of fn.
func returnsOf(fn *ssa.Function) []*ssa.Return {
	var out []*ssa.Return
	for _, b := range fn.Blocks {
		if len(b.Instrs) > 0 {
			if r, ok := b.Instrs[len(b.Instrs)-1].(*ssa.Return); ok {
				out = append(out, r)
			}
		}
	}
	return out
}

// callsIn lists the call instructions (Call, Defer, Go) of fn.
func callsIn(fn *ssa.Function) []ssa.CallInstruction {
	var out []ssa.CallInstruction
	for _, b := range fn.Blocks {
		for _, ins := range b.Instrs {
			if ci, ok := ins.(ssa.CallInstruction); ok {
				out = append(out, ci)
			}
		}
	}
	return out
}

// calleeFullName: import-path-qualified name of a statically resolved callee
// ("crypto/ecdsa.SignASN1", "(*bytes.Buffer).Write"); for interface invokes
// "(pkg.Iface).Method"; "" if dynamic.
func calleeFullName(ci ssa.CallInstruction) string {
	cc := ci.Common()
	if cc.IsInvoke() {
		recv := cc.Value.Type()
		return "(" + types.TypeString(recv, nil) + ")." + cc.Method.Name()
	}
	if f := cc.StaticCallee(); f != nil {
		if o, ok := f.Object().(*types.Func); ok {
			return funcFullName(o)
		}
		return f.String()
	}
	return ""
}

func funcFullName(o *types.Func) string {
	sig := o.Type().(*types.Signature)
	if r := sig.Recv(); r != nil {
		return "(" + types.TypeString(r.Type(), nil) + ")." + o.Name()
	}
	if o.Pkg() != nil {
		return o.Pkg().Path() + "." + o.Name()
	}
	return o.Name()
}

// isErrorType reports whether t is the predeclared error interface.
func isErrorType(t types.Type) bool {
	return types.Identical(t, types.Universe.Lookup("error").Type())
}

// typeIs reports whether t (after stripping pointers if deref) is the named type pkgPath.name.
func typeIs(t types.Type, pkgPath, name string) bool {
	if p, ok := t.(*types.Pointer); ok {
		t = p.Elem()
	}
	n, ok := t.(*types.Named)
	if !ok || n.Obj().Name() != name {
		return false
	}
	if n.Obj().Pkg() == nil {
		return pkgPath == ""
	}
	return n.Obj().Pkg().Path() == pkgPath
}

func (c *Ctx) modPkg(suffix string) string {
	if suffix == "" {
		return c.Mod
	}
	return c.Mod + "/" + suffix
}

// fieldOf resolves the struct field addressed by a FieldAddr / Field instruction.
func fieldOfAddr(fa *ssa.FieldAddr) *types.Var {
	t := fa.X.Type().Underlying().(*types.Pointer).Elem().Underlying().(*types.Struct)
	return t.Field(fa.Field)
}

func fieldOfVal(f *ssa.Field) *types.Var {
	t := f.X.Type().Underlying().(*types.Struct)
	return t.Field(f.Field)
}

// structOwner names the struct type a field belongs to, when the FieldAddr base is a named type.
func ownerName(c *Ctx, t types.Type) string {
	if p, ok := t.Underlying().(*types.Pointer); ok {
		t = p.Elem()
	}
	if p, ok := t.(*types.Pointer); ok {
		t = p.Elem()
	}
	if n, ok := t.(*types.Named); ok {
		return objName(c, n.Obj())
	}
	return types.TypeString(t, nil)
}

func fmtSet(m map[string]bool) string {
	var ks []string
	for k := range m {
		ks = append(ks, k)
	}
	sort.Strings(ks)
	return "{" + strings.Join(ks, ", ") + "}"
}

func sprintf(f string, a ...any) string { return fmt.Sprintf(f, a...) }

// retResults returns the operands of a Return with defer-spilled results looked through:
// in a function with defer, go/ssa writes `*slot = v; rundefers; t = *slot; return t`.
func retResults(ret *ssa.Return) []ssa.Value {
	out := make([]ssa.Value, len(ret.Results))
	for i, v := range ret.Results {
		out[i] = v
		u, ok := v.(*ssa.UnOp)
		if !ok || u.Op != token.MUL || u.Block() != ret.Block() {
			continue
		}
		al, ok := u.X.(*ssa.Alloc)
		if !ok {
			continue
		}
		// last store to the slot in this block before the load
		var last ssa.Value
		for _, ins := range ret.Block().Instrs {
			if ins == ssa.Instruction(u) {
				break
			}
			if st, ok := ins.(*ssa.Store); ok && st.Addr == ssa.Value(al) {
				last = st.Val
			}
		}
		if last != nil {
			out[i] = last
		}
	}
	return out
}

// unwrapConv looks through ChangeType / MakeInterface / ChangeInterface.
func unwrapConv(v ssa.Value) ssa.Value {
	for {
		switch x := v.(type) {
		case *ssa.ChangeType:
			v = x.X
		case *ssa.MakeInterface:
			v = x.X
		case *ssa.ChangeInterface:
			v = x.X
		default:
			return v
		}
	}
}

// pemWrite: one place where a PEM block of a constant type is produced. When the block is assembled in a helper that
// takes the type as a parameter, the place is the helper's call site.
type pemWrite struct {
	typ   string
	fn    *ssa.Function // function in whose frame the type is a constant
	bytes ssa.Value     // the block's Bytes in that frame (nil when not identified)
	pos   token.Pos
}

func (c *Ctx) pemWrites() (out []pemWrite, unresolved []string) {
	for _, fn := range c.Funcs {
		for _, b := range fn.Blocks {
			for _, ins := range b.Instrs {
				st, ok := ins.(*ssa.Store)
				if !ok {
					continue
				}
				fa, ok := st.Addr.(*ssa.FieldAddr)
				if !ok || fieldOfAddr(fa).Name() != "Type" || !typeIs(fa.X.Type().Underlying().(*types.Pointer).Elem(), "encoding/pem", "Block") {
					continue
				}
				// the Bytes stored into the same block value
				var bytesVal ssa.Value
				if refs := fa.X.Referrers(); refs != nil {
					for _, u := range *refs {
						if fa2, ok := u.(*ssa.FieldAddr); ok && fieldOfAddr(fa2).Name() == "Bytes" && fa2.Referrers() != nil {
							for _, uu := range *fa2.Referrers() {
								if st2, ok := uu.(*ssa.Store); ok && st2.Addr == ssa.Value(fa2) {
									bytesVal = st2.Val
								}
							}
						}
					}
				}
				switch v := st.Val.(type) {
				case *ssa.Const:
					if v.Value != nil && v.Value.Kind() == constant.String {
						out = append(out, pemWrite{constant.StringVal(v.Value), fn, bytesVal, st.Pos()})
						continue
					}
				case *ssa.Parameter:
					ti, bi := -1, -1
					for i, p := range fn.Params {
						if p == v {
							ti = i
						}
						if bp, ok := bytesVal.(*ssa.Parameter); ok && bp == p {
							bi = i
						}
					}
					sites := 0
					okAll := ti >= 0
					for _, caller := range c.Funcs {
						for _, ci := range callsIn(caller) {
							if ci.Common().StaticCallee() != fn || ti >= len(ci.Common().Args) {
								continue
							}
							sites++
							k, ok := ci.Common().Args[ti].(*ssa.Const)
							if !ok || k.Value == nil || k.Value.Kind() != constant.String {
								okAll = false
								continue
							}
							var bv ssa.Value
							if bi >= 0 && bi < len(ci.Common().Args) {
								bv = ci.Common().Args[bi]
							}
							out = append(out, pemWrite{constant.StringVal(k.Value), caller, bv, ci.Pos()})
						}
					}
					if okAll && sites > 0 {
						continue
					}
				}
				unresolved = append(unresolved, c.FuncKey(fn)+" at "+c.Pos(st.Pos()))
			}
		}
	}
	return out, unresolved
}

// walkCallbacks: the module functions handed to fs.WalkDir / filepath.WalkDir / filepath.Walk as the visit function -
// a closure, a named function or a method value (resolved to the method) - with the function that starts the walk.
func (c *Ctx) walkCallbacks() map[*ssa.Function]*ssa.Function {
	out := map[*ssa.Function]*ssa.Function{}
	for _, walker := range []string{"io/fs.WalkDir", "path/filepath.WalkDir", "path/filepath.Walk"} {
		for fn, cis := range c.funcsCalling(walker) {
			for _, ci := range cis {
				args := ci.Common().Args
				v := unwrapConv(args[len(args)-1])
				var cb *ssa.Function
				switch x := v.(type) {
				case *ssa.MakeClosure:
					cb, _ = x.Fn.(*ssa.Function)
				case *ssa.Function:
					cb = x
				}
				if cb == nil {
					continue
				}
				if cb.Synthetic != "" { // bound method value: the wrapper forwards to the method
					if t := forwardTarget(c, cb); t != nil {
						cb = t
					}
				}
				out[cb] = fn
			}
		}
	}
	return out
}

var funcArgCache = map[*Ctx]map[*ssa.Parameter][]*ssa.Function{}

// funcArgTargets: for every function-typed parameter of a module function (instances of generic functions included),
// the module functions that some call site hands in for it.
func (c *Ctx) funcArgTargets() map[*ssa.Parameter][]*ssa.Function {
	if m, ok := funcArgCache[c]; ok {
		return m
	}
	out := map[*ssa.Parameter][]*ssa.Function{}
	for fn := range ssautil.AllFunctions(c.Prog) {
		if fn.Blocks == nil || !c.InModule(fn) {
			continue
		}
		for _, ci := range callsIn(fn) {
			g := ci.Common().StaticCallee()
			if g == nil || !c.InModule(g) || g.Blocks == nil {
				continue
			}
			for i, a := range ci.Common().Args {
				if i >= len(g.Params) {
					continue
				}
				var f *ssa.Function
				switch fv := unwrapConv(a).(type) {
				case *ssa.Function:
					f = fv
				case *ssa.MakeClosure:
					f, _ = fv.Fn.(*ssa.Function)
				}
				if f == nil || !c.InModule(f) {
					continue
				}
				dup := false
				for _, x := range out[g.Params[i]] {
					if x == f {
						dup = true
					}
				}
				if !dup {
					out[g.Params[i]] = append(out[g.Params[i]], f)
				}
			}
		}
	}
	funcArgCache[c] = out
	return out
}

type namedConst struct {
	name string
	val  int64
}

// constsOfType lists the integer constants declared with named type t, in name order.
func constsOfType(c *Ctx, t *types.Named) []namedConst {
	var out []namedConst
	sc := t.Obj().Pkg().Scope()
	for _, name := range sc.Names() {
		if k, ok := sc.Lookup(name).(*types.Const); ok && types.Identical(k.Type(), t) {
			if v, exact := constant.Int64Val(k.Val()); exact {
				out = append(out, namedConst{name, v})
			}
		}
	}
	return out
}

// negateCmp: the comparison that holds when op does not; flipCmp: op with its operands exchanged.
func negateCmp(op token.Token) token.Token {
	return map[token.Token]token.Token{token.LSS: token.GEQ, token.GEQ: token.LSS, token.GTR: token.LEQ, token.LEQ: token.GTR, token.EQL: token.NEQ, token.NEQ: token.EQL}[op]
}

func flipCmp(op token.Token) token.Token {
	if f, ok := map[token.Token]token.Token{token.LSS: token.GTR, token.GTR: token.LSS, token.GEQ: token.LEQ, token.LEQ: token.GEQ}[op]; ok {
		return f
	}
	return op
}

// fnPkgPath: the import path of the package a function belongs to; "" for wrappers and other functions without one.
func fnPkgPath(f *ssa.Function) string {
	if f == nil || f.Pkg == nil || f.Pkg.Pkg == nil {
		return ""
	}
	return f.Pkg.Pkg.Path()
}
