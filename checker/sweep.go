package main

import (
	"bytes"
	"fmt"
	"go/ast"
	"go/format"
	"go/parser"
	"go/token"
	"golang.org/x/tools/go/ssa"
	"os"
	"path/filepath"
	"sort"
	"strconv"
	"strings"
	"sync"
)

// A systematic mutation sweep (exploration aid, not a check): simple syntactic mutation operators are applied to
// every non-test source file of the repository; each mutant that still type-checks is analysed with all rules
// (in-memory overlay). The output lists which mutants are reported and which survive. Surviving mutants are
// candidates for triage: equivalent, irrelevant to every property, or a blind spot.

var sweepMu sync.Mutex

type sweepMutant struct {
	File string
	Line int
	Op   string
	Desc string
	Src  []byte
}

func genMutants(repo string) ([]sweepMutant, error) {
	var out []sweepMutant
	var files []string
	filepath.Walk(repo, func(p string, info os.FileInfo, err error) error {
		if err == nil && !info.IsDir() && strings.HasSuffix(p, ".go") && !strings.HasSuffix(p, "_test.go") && !strings.Contains(p, "/.git/") {
			files = append(files, p)
		}
		return nil
	})
	sort.Strings(files)
	for _, file := range files {
		src, err := os.ReadFile(file)
		if err != nil {
			return nil, err
		}
		// count mutation points first, then re-parse per mutant (simple and safe)
		fset := token.NewFileSet()
		f, err := parser.ParseFile(fset, file, src, parser.ParseComments)
		if err != nil {
			return nil, err
		}
		type point struct {
			idx  int
			kind string
		}
		n := 0
		ast.Inspect(f, func(nd ast.Node) bool {
			n += len(mutationsAt(nd, nil))
			return true
		})
		for i := 0; i < n; i++ {
			fset2 := token.NewFileSet()
			f2, _ := parser.ParseFile(fset2, file, src, parser.ParseComments)
			k := 0
			var desc, op string
			var line int
			done := false
			ast.Inspect(f2, func(nd ast.Node) bool {
				if done {
					return false
				}
				ms := mutationsAt(nd, nil)
				for j := range ms {
					if k == i {
						// apply
						ms2 := mutationsAt(nd, &j)
						_ = ms2
						desc, op = ms[j].desc, ms[j].op
						line = fset2.Position(nd.Pos()).Line
						if ms[j].pos.IsValid() {
							line = fset2.Position(ms[j].pos).Line
						}
						done = true
						return false
					}
					k++
				}
				return true
			})
			if !done {
				continue
			}
			var buf bytes.Buffer
			if err := format.Node(&buf, fset2, f2); err != nil {
				continue
			}
			rel, _ := filepath.Rel(repo, file)
			out = append(out, sweepMutant{File: rel, Line: line, Op: op, Desc: desc, Src: buf.Bytes()})
		}
	}
	return out, nil
}

type mutDesc struct {
	op, desc string
	pos      token.Pos // where the mutated statement is, when that is not the node visited
}

// mutationsAt lists the mutations available at node nd; if apply != nil the apply-th one is performed in place.
func mutationsAt(nd ast.Node, apply *int) []mutDesc {
	var out []mutDesc
	add := func(op, desc string, do func()) {
		if apply != nil && *apply == len(out) {
			do()
		}
		out = append(out, mutDesc{op: op, desc: desc})
	}
	switch x := nd.(type) {
	case *ast.BinaryExpr:
		swap := map[token.Token]token.Token{token.EQL: token.NEQ, token.NEQ: token.EQL, token.LSS: token.LEQ, token.LEQ: token.LSS,
			token.GTR: token.GEQ, token.GEQ: token.GTR, token.LAND: token.LOR, token.LOR: token.LAND, token.ADD: token.SUB, token.SUB: token.ADD}
		if t, ok := swap[x.Op]; ok {
			old := x.Op
			// skip string concatenation
			if !(old == token.ADD && (isStringLit(x.X) || isStringLit(x.Y))) {
				add("binop", old.String()+" -> "+t.String(), func() { x.Op = t })
			}
		}
	case *ast.IfStmt:
		if x.Cond != nil {
			add("negate-if", "if cond -> if !(cond)", func() { x.Cond = &ast.UnaryExpr{Op: token.NOT, X: &ast.ParenExpr{X: x.Cond}} })
		}
	case *ast.BasicLit:
		if x.Kind == token.INT {
			if v, err := strconv.ParseInt(x.Value, 0, 64); err == nil {
				add("const", x.Value+" -> "+strconv.FormatInt(v+1, 10), func() { x.Value = strconv.FormatInt(v+1, 10) })
			}
		}
	case *ast.Ident:
		if x.Name == "true" {
			add("bool", "true -> false", func() { x.Name = "false" })
		} else if x.Name == "false" {
			add("bool", "false -> true", func() { x.Name = "true" })
		}
	case *ast.BlockStmt:
		for i, st := range x.List {
			switch s := st.(type) {
			case *ast.AssignStmt:
				if s.Tok == token.ASSIGN || s.Tok == token.ADD_ASSIGN || s.Tok == token.OR_ASSIGN {
					i := i
					add("delete-assign", "delete assignment", func() { x.List[i] = &ast.EmptyStmt{Semicolon: s.Pos()} })
					out[len(out)-1].pos = s.Pos()
				}
			case *ast.ExprStmt:
				if call, ok := s.X.(*ast.CallExpr); ok && !isLogging(call) {
					i := i
					add("delete-call", "delete call statement", func() { x.List[i] = &ast.EmptyStmt{Semicolon: s.Pos()} })
					out[len(out)-1].pos = s.Pos()
				}
			case *ast.BranchStmt:
				if s.Label == nil && (s.Tok == token.BREAK || s.Tok == token.CONTINUE) {
					i := i
					add("delete-branch", "delete "+s.Tok.String(), func() { x.List[i] = &ast.EmptyStmt{Semicolon: s.Pos()} })
					out[len(out)-1].pos = s.Pos()
					other := token.BREAK
					if s.Tok == token.BREAK {
						other = token.CONTINUE
					}
					add("swap-branch", s.Tok.String()+" -> "+other.String(), func() { s.Tok = other })
					out[len(out)-1].pos = s.Pos()
				}
			case *ast.ReturnStmt:
				// a return that is not the last statement of its block is never one; the last one of an if-block often
				// can go (the type checker refuses the mutant where a return is then missing)
				i := i
				add("delete-return", "delete return", func() { x.List[i] = &ast.EmptyStmt{Semicolon: s.Pos()} })
				out[len(out)-1].pos = s.Pos()
			}
		}
	case *ast.SliceExpr:
		if !x.Slice3 && x.Low == nil && x.High != nil {
			add("slice-flip", "x[:k] -> x[k:]", func() { x.Low, x.High = x.High, nil })
		} else if !x.Slice3 && x.Low != nil && x.High == nil {
			add("slice-flip", "x[k:] -> x[:k]", func() { x.High, x.Low = x.Low, nil })
		}
	case *ast.UnaryExpr:
		if x.Op == token.NOT {
			if _, isParen := x.X.(*ast.ParenExpr); !isParen { // !(cond) is what negate-if makes
				add("drop-not", "!x -> !!x", func() { x.X = &ast.UnaryExpr{Op: token.NOT, X: &ast.ParenExpr{X: x.X}} })
			}
		}
	case *ast.CallExpr:
		// swap two adjacent arguments that are both plain identifiers or selectors (type check filters the rest)
		for i := 0; i+1 < len(x.Args); i++ {
			if simpleOperand(x.Args[i]) && simpleOperand(x.Args[i+1]) {
				i := i
				add("swap-args", fmt.Sprintf("swap arguments %d and %d", i, i+1), func() { x.Args[i], x.Args[i+1] = x.Args[i+1], x.Args[i] })
			}
		}
	}
	return out
}

func isStringLit(e ast.Expr) bool {
	b, ok := e.(*ast.BasicLit)
	return ok && b.Kind == token.STRING
}

func simpleOperand(e ast.Expr) bool {
	switch x := e.(type) {
	case *ast.Ident:
		return x.Name != "nil"
	case *ast.SelectorExpr:
		return true
	}
	return false
}

func isLogging(call *ast.CallExpr) bool {
	if sel, ok := call.Fun.(*ast.SelectorExpr); ok {
		if id, ok := sel.X.(*ast.Ident); ok && (id.Name == "logging" || id.Name == "fmt" || id.Name == "log") {
			return true
		}
	}
	return false
}

// runSweep analyses every mutant with all rules and prints one line per mutant.
func runSweep(repo string, only string, workers int) int {
	var ms []sweepMutant
	var err error
	switch os.Getenv("GOPKICHECK_SWEEP_OPS") { // "" = the syntactic operators, "typed" = the type-aware ones, "all" = both
	case "typed":
		ms, err = genTypedMutants(repo)
	case "all":
		ms, err = genMutants(repo)
		if err == nil {
			var t []sweepMutant
			t, err = genTypedMutants(repo)
			ms = append(ms, t...)
		}
	default:
		ms, err = genMutants(repo)
	}
	if err != nil {
		fmt.Println("sweep:", err)
		return 2
	}
	known, _ := loadKnown(filepath.Join(verifDir, "KNOWN_FINDINGS.txt"))
	isKnown := func(id string) bool {
		for _, k := range known {
			if k.Key == id {
				return true
			}
		}
		return false
	}
	var names []string
	for n := range rules {
		names = append(names, n)
	}
	sort.Strings(names)
	type res struct {
		i       int
		outcome string
		fired   []string
	}
	results := make([]res, len(ms))
	if dir := os.Getenv("GOPKICHECK_SWEEP_DUMP"); dir != "" {
		// exploration aid: write every mutant's source (no analysis), so that the surviving ones can be run against the
		// repository's own test suite
		os.MkdirAll(dir, 0o755)
		for i, m := range ms {
			os.WriteFile(filepath.Join(dir, fmt.Sprintf("%05d.go", i)), m.Src, 0o644)
			os.WriteFile(filepath.Join(dir, fmt.Sprintf("%05d.txt", i)), []byte(fmt.Sprintf("%s:%d %s %s\n", m.File, m.Line, m.Op, m.Desc)), 0o644)
		}
		fmt.Println("dumped", len(ms), "mutants to", dir)
		return 0
	}
	var wg sync.WaitGroup
	sem := make(chan struct{}, workers)
	for i, m := range ms {
		if only != "" && !strings.Contains(m.File, only) {
			results[i] = res{i, "skipped", nil}
			continue
		}
		wg.Add(1)
		sem <- struct{}{}
		go func(i int, m sweepMutant) {
			defer wg.Done()
			defer func() { <-sem }()
			// the rule engines keep per-program caches in package-level maps: one program at a time
			sweepMu.Lock()
			defer sweepMu.Unlock()
			loopCache = map[*ssa.Function]bool{}
			provCache = map[string]*prov{}
			c, err := Load(repo, modPath, map[string][]byte{filepath.Join(repo, m.File): m.Src}, nil)
			if err != nil {
				results[i] = res{i, "does-not-compile", nil}
				return
			}
			var fired []string
			for _, n := range names {
				rule := rules[n]
				rep := RunRule(c, rule)
				if len(rep.Obs) < rule.Floor {
					fired = append(fired, n+"|floor")
				}
				for _, o := range rep.Obs {
					if (o.Status == "violation" && !isKnown(o.ID())) || o.Status == "undecided" {
						fired = append(fired, o.ID())
					}
				}
			}
			if len(fired) > 0 {
				results[i] = res{i, "reported", fired}
			} else {
				results[i] = res{i, "survived", nil}
			}
		}(i, m)
	}
	wg.Wait()
	tally := map[string]int{}
	for i, m := range ms {
		r := results[i]
		tally[r.outcome]++
		if r.outcome == "skipped" {
			continue
		}
		first := ""
		if len(r.fired) > 0 {
			first = r.fired[0]
		}
		fmt.Printf("%-16s %s:%d %-13s %-28s %s\n", r.outcome, m.File, m.Line, m.Op, m.Desc, first)
	}
	fmt.Println(tally)
	return 0
}
