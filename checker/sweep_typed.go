package main

import (
	"fmt"
	"go/ast"
	"go/token"
	"go/types"
	"os"
	"path/filepath"
	"sort"
	"strings"

	"golang.org/x/tools/go/packages"
)

// Type-aware mutation operators for the sweep (exploration aid, not a check). The syntactic operators of sweep.go
// flip operators and delete statements; these cross-wire: a field read or written is replaced by a like-typed
// sibling field, the values of two like-typed keys of a struct literal change places, a named constant becomes its
// neighbour of the same type, a local variable becomes another local of the same type, a call whose answer has the
// type of its operand is replaced by the operand (ToLower, TrimSpace, UTC, append), a guard without else is deleted.
// The repository is loaded once with types; every mutant is a textual splice of the original file, so formatting
// and positions of everything else stay as they are. Mutants that do not type-check are filtered by the sweep.

type splice struct {
	start, end int // byte offsets in the file
	text       string
	op, desc   string
	line       int
}

func genTypedMutants(repo string) ([]sweepMutant, error) {
	c, err := Load(repo, modPath, nil, nil)
	if err != nil {
		return nil, err
	}
	var out []sweepMutant
	pkgs := append([]*packages.Package(nil), c.Pkgs...)
	sort.Slice(pkgs, func(i, j int) bool { return pkgs[i].PkgPath < pkgs[j].PkgPath })
	for _, p := range pkgs {
		for fi, f := range p.Syntax {
			name := p.CompiledGoFiles[fi]
			if strings.HasSuffix(name, "_test.go") {
				continue
			}
			src, err := os.ReadFile(name)
			if err != nil {
				return nil, err
			}
			tf := c.Fset.File(f.Pos())
			off := func(pos token.Pos) int { return tf.Offset(pos) }
			text := func(n ast.Node) string { return string(src[off(n.Pos()):off(n.End())]) }
			info := p.TypesInfo
			var sp []splice
			add := func(n ast.Node, repl, op, desc string) {
				sp = append(sp, splice{off(n.Pos()), off(n.End()), repl, op, desc, c.Fset.Position(n.Pos()).Line})
			}
			// enclosing function bodies, for var-swap
			var funcs []ast.Node
			ast.Inspect(f, func(n ast.Node) bool {
				switch n.(type) {
				case *ast.FuncDecl, *ast.FuncLit:
					funcs = append(funcs, n)
				}
				return true
			})
			outermost := func(pos token.Pos) ast.Node {
				for _, fn := range funcs { // preorder: the first that contains pos is the outermost
					if fn.Pos() <= pos && pos < fn.End() {
						return fn
					}
				}
				return nil
			}
			localsOf := map[ast.Node][]*types.Var{}
			for id, obj := range info.Defs {
				v, ok := obj.(*types.Var)
				if !ok || v.IsField() || id.Name == "_" || v.Parent() == nil || v.Parent() == p.Types.Scope() {
					continue
				}
				if fn := outermost(id.Pos()); fn != nil {
					localsOf[fn] = append(localsOf[fn], v)
				}
			}
			for _, vs := range localsOf {
				sort.Slice(vs, func(i, j int) bool { return vs[i].Pos() < vs[j].Pos() })
			}
			lhsIdent := map[*ast.Ident]bool{}
			ast.Inspect(f, func(n ast.Node) bool {
				if as, ok := n.(*ast.AssignStmt); ok {
					for _, l := range as.Lhs {
						if id, ok := l.(*ast.Ident); ok {
							lhsIdent[id] = true
						}
					}
				}
				return true
			})
			ast.Inspect(f, func(n ast.Node) bool {
				switch x := n.(type) {
				case *ast.SelectorExpr:
					sel := info.Selections[x]
					if sel == nil || sel.Kind() != types.FieldVal || len(sel.Index()) != 1 {
						return true
					}
					st := structOf(sel.Recv())
					if st == nil {
						return true
					}
					cur := sel.Obj().(*types.Var)
					n := 0
					for i := 0; i < st.NumFields() && n < 2; i++ {
						g := st.Field(i)
						if g == cur || g.Name() == "_" || !types.Identical(g.Type(), cur.Type()) {
							continue
						}
						if !g.Exported() && g.Pkg() != p.Types {
							continue
						}
						add(x.Sel, g.Name(), "field-swap", text(x)+" -> ."+g.Name())
						n++
					}
				case *ast.CompositeLit:
					tv, ok := info.Types[x]
					if !ok || structOf(tv.Type) == nil {
						return true
					}
					var kvs []*ast.KeyValueExpr
					for _, e := range x.Elts {
						if kv, ok := e.(*ast.KeyValueExpr); ok {
							kvs = append(kvs, kv)
						}
					}
					for i := 0; i < len(kvs); i++ {
						ti := info.Types[kvs[i].Value].Type
						for j := i + 1; j < len(kvs); j++ {
							tj := info.Types[kvs[j].Value].Type
							if ti != nil && tj != nil && types.Identical(ti, tj) && text(kvs[i].Value) != text(kvs[j].Value) {
								// two splices in one mutant: encode as one splice over the span from value i to value j
								a, b := kvs[i].Value, kvs[j].Value
								mid := string(src[off(a.End()):off(b.Pos())])
								sp = append(sp, splice{off(a.Pos()), off(b.End()), text(b) + mid + text(a), "kv-swap",
									text(kvs[i].Key) + " <-> " + text(kvs[j].Key), c.Fset.Position(a.Pos()).Line})
								break
							}
						}
					}
				case *ast.Ident:
					obj := info.Uses[x]
					switch o := obj.(type) {
					case *types.Const:
						nt, ok := o.Type().(*types.Named)
						if !ok || o.Pkg() == nil || !c.isModPath(o.Pkg().Path()) || nt.Obj().Pkg() != o.Pkg() {
							return true
						}
						var sib []*types.Const
						sc := o.Pkg().Scope()
						for _, nm := range sc.Names() {
							if k, ok := sc.Lookup(nm).(*types.Const); ok && types.Identical(k.Type(), o.Type()) {
								sib = append(sib, k)
							}
						}
						sort.Slice(sib, func(i, j int) bool { return sib[i].Pos() < sib[j].Pos() })
						for i, k := range sib {
							if k == o && len(sib) > 1 {
								nx := sib[(i+1)%len(sib)]
								if nx.Exported() || nx.Pkg() == p.Types {
									add(x, nx.Name(), "const-swap", o.Name()+" -> "+nx.Name())
								}
							}
						}
					case *types.Var:
						if o.IsField() || o.Parent() == nil || o.Parent() == p.Types.Scope() || o.Pkg() != p.Types || lhsIdent[x] {
							return true
						}
						if isErrorType(o.Type()) {
							return true
						}
						fn := outermost(x.Pos())
						if fn == nil {
							return true
						}
						// the nearest other local of the same type that is visible here
						var best *types.Var
						for _, v := range localsOf[fn] {
							if v == o || v.Name() == o.Name() || !types.Identical(v.Type(), o.Type()) {
								continue
							}
							if v.Pos() >= x.Pos() || !v.Parent().Contains(x.Pos()) {
								continue
							}
							best = v
						}
						if best != nil {
							add(x, best.Name(), "var-swap", o.Name()+" -> "+best.Name())
						}
					}
				case *ast.CallExpr:
					tv, ok := info.Types[x]
					if !ok || tv.Type == nil || isLogging(x) {
						return true
					}
					if ftv, ok := info.Types[x.Fun]; ok && ftv.IsType() {
						return true // conversion
					}
					if _, isTuple := tv.Type.(*types.Tuple); isTuple {
						return true
					}
					if len(x.Args) >= 1 {
						if at := info.Types[x.Args[0]].Type; at != nil && types.Identical(at, tv.Type) && !isBoolType(at) {
							add(x, text(x.Args[0]), "unwrap-call", text(x.Fun)+"(x, ...) -> x")
							return true
						}
					}
					if se, ok := x.Fun.(*ast.SelectorExpr); ok && len(x.Args) == 0 {
						if rt := info.Types[se.X].Type; rt != nil && types.Identical(rt, tv.Type) && info.Selections[se] != nil {
							add(x, text(se.X), "unwrap-call", "x."+se.Sel.Name+"() -> x")
						}
					}
				case *ast.IfStmt:
					if x.Else == nil && x.Init == nil {
						add(x, "", "delete-if", "delete if "+oneLine(text(x.Cond)))
					}
				}
				return true
			})
			sort.SliceStable(sp, func(i, j int) bool { return sp[i].start < sp[j].start })
			rel, _ := filepath.Rel(repo, name)
			for _, s := range sp {
				m := make([]byte, 0, len(src)+len(s.text))
				m = append(m, src[:s.start]...)
				m = append(m, s.text...)
				m = append(m, src[s.end:]...)
				out = append(out, sweepMutant{File: rel, Line: s.line, Op: s.op, Desc: s.desc, Src: m})
			}
		}
	}
	return out, nil
}

func oneLine(s string) string {
	s = strings.Join(strings.Fields(s), " ")
	if len(s) > 60 {
		s = s[:60] + "..."
	}
	return s
}

func structOf(t types.Type) *types.Struct {
	if t == nil {
		return nil
	}
	if p, ok := t.Underlying().(*types.Pointer); ok {
		t = p.Elem()
	}
	st, _ := t.Underlying().(*types.Struct)
	return st
}

var _ = fmt.Sprintf
