// Package fixture holds one deliberately wrong instance per checker rule whose
// expected count on the repository is zero. Every run of a check evaluates its
// zero-count rules on this package too and fails as "checker broken" if the
// instance below is not reported. Nothing here is ever executed.
package fixture

import (
	"bufio"
	"bytes"
	"crypto"
	"crypto/ecdsa"
	"crypto/elliptic"
	"encoding/asn1"
	"encoding/json"
	"errors"
	"io"
	"os"
	"strconv"
	"strings"
)

// LINT-READ: one Read, its count slices the buffer.
func singleRead(r io.Reader) []byte {
	b := make([]byte, 4096)
	n, err := r.Read(b)
	if err != nil {
		return nil
	}
	return b[:n]
}

// LINT-RELIDX: end is relative to s[start:], used on s.
func relativeIndex(s []byte) []byte {
	start := bytes.Index(s, []byte("#"))
	if start == -1 {
		return nil
	}
	end := bytes.IndexByte(s[start:], '\n')
	if end == -1 {
		return nil
	}
	return s[start:end]
}

// LINT-NARROW: unchecked narrowing of a parsed integer.
func narrow(s string) byte {
	v, err := strconv.Atoi(s)
	if err != nil {
		return 0
	}
	return byte(v)
}

type Certificate struct{ Serial int }
type BuildArtifact struct {
	Certificate *Certificate
	Request     *Certificate
}

// LINT-NILPART: part dereferenced without a nil test.
func nilPart(a *BuildArtifact) int {
	return a.Certificate.Serial
}

// LINT-TYPEASSERT: single-result assertion.
func assertNoOk(x any) *Certificate {
	return x.(*Certificate)
}

// LINT-IDXNEG: LastIndex result used as a bound without a test.
func indexNoTest(name string) string {
	return name[:strings.LastIndex(name, ".")]
}

// ERR-DROP: error result dropped.
func dropError(path string) {
	os.Remove(path)
}

// ERR-POLARITY: the test is the wrong way round.
func invertedErrCheck(s string) (int, error) {
	v, err := strconv.Atoi(s)
	if err == nil {
		return 0, err
	}
	return v, nil
}

// ERR-DROP (stated belief): error blank-assigned, value used.
func dropErrorBlank(s string) int {
	v, _ := strconv.Atoi(s)
	return v
}

type Content struct {
	Subject []string
	Ext     map[string]string
}

// PURE: mutation of caller memory through a by-value struct.
func mutateCaller(c Content) bool {
	s := c.Subject
	for i, j := 0, len(s)-1; i < j; i, j = i+1, j-1 {
		s[i], s[j] = s[j], s[i]
	}
	return len(s) > 0
}

// PANIC-INV: an undischarged explicit panic.
func undischargedPanic(x int) int {
	if x < 0 {
		panic(errors.New("negative"))
	}
	return x
}

// EFFECT: goroutine / channel use (single-schedule assumption).
func spawns(ch chan int) {
	go func() { ch <- 1 }()
}

type item struct{ Oids []int }

// LINT-REUSE: the slice stored in an earlier iteration is truncated and refilled.
func reuseSlice(in [][]int) []item {
	out := make([]item, len(in))
	buf := make([]int, 0, 8)
	for i, xs := range in {
		buf = buf[:0]
		for _, x := range xs {
			buf = append(buf, x)
		}
		out[i] = item{Oids: buf}
	}
	return out
}

// LINT-USEAFTERCLOSE: Stat on a handle that was closed.
func useAfterClose(f *os.File) int64 {
	f.Close()
	fi, err := f.Stat()
	if err != nil {
		return 0
	}
	return fi.Size()
}

type elem struct{ Extra []byte }

// LINT-STALE: extra keeps the value of an earlier element when the current one has none.
func staleCarry(in []string) []elem {
	out := make([]elem, len(in))
	var extra []byte
	for i, s := range in {
		if len(s) > 0 {
			extra = []byte(s)
		}
		out[i] = elem{Extra: extra}
	}
	return out
}

// LINT-TYPEDNIL: a typed nil pointer inside an interface alongside the error.
func typedNil(b []byte) (any, error) {
	c, err := parseCert(b)
	return c, err
}

func parseCert(b []byte) (*Certificate, error) {
	if len(b) == 0 {
		return nil, errors.New("empty")
	}
	return &Certificate{Serial: int(b[0])}, nil
}

// STATELESS: a result that depends on an earlier call through a package-level table.
var table []bool

func keepsTable(n int) bool {
	if len(table) <= n {
		table = make([]bool, n+1)
	}
	table[n] = true
	return table[0]
}

// ENC-LOOP: a loop over elements that stops encoding at the first empty one.
func encodeSome(items []string) ([]byte, error) {
	var out []byte
	for _, it := range items {
		if it == "" {
			break
		}
		b, err := marshalItem(it)
		if err != nil {
			return nil, err
		}
		out = append(out, b...)
	}
	return out, nil
}

func marshalItem(s string) ([]byte, error) {
	if len(s) > 100 {
		return nil, errors.New("too long")
	}
	return []byte(s), nil
}

// ENC-GATE: one parameter decides whether another one is encoded.
type gated struct {
	Flag bool
	N    int
}

func gatedField(flag bool, n int) gated {
	g := gated{Flag: flag}
	if flag {
		g.N = n
	}
	return g
}

// DER-RAW: input bytes emitted verbatim.
func rawFromInput(b []byte) asn1.RawValue {
	return asn1.RawValue{FullBytes: b}
}

// LINT-NILRESULT: (nil, nil) answered, method called on the value without a nil test.
type namer interface{ name() string }

type plain string

func (p plain) name() string { return string(p) }

func lookupNamer(k string) (namer, error) {
	switch k {
	case "a":
		return plain("a"), nil
	case "":
		return nil, errors.New("empty")
	}
	return nil, nil
}

func useMaybeNil(k string) string {
	n, err := lookupNamer(k)
	if err != nil {
		return ""
	}
	return n.name()
}

// LINT-NILDEREF: the guard is joined with the wrong connective.
type node struct{ next *node }

func derefKnownNil(n *node) bool {
	if n == nil && n.next == nil {
		return true
	}
	return false
}

// LINT-CONSTIDX
func constIndexBeyondMake() byte {
	b := make([]byte, 1)
	return b[1]
}

// ASN1-RAWSEQ
func primitiveSequence(b []byte) ([]byte, error) {
	return asn1.Marshal(asn1.RawValue{Tag: asn1.TagSequence, Bytes: b})
}

// BITSTRING-LEN
func bitLengthNotEightTimes(b []byte) asn1.BitString {
	return asn1.BitString{Bytes: b, BitLength: len(b) * 9}
}

// POINT-ORDER
func swappedCoordinates(k *ecdsa.PublicKey) []byte {
	return elliptic.Marshal(k.Curve, k.Y, k.X)
}

// LINT-NILPHI: the assignment is missing on one branch.
func useOfMaybeUnset(a bool, n *node) *node {
	var p *node
	if a {
		p = n
	}
	return p.next
}

// LINT-PADCOPY
func padCopyWrongOffset(src []byte) []byte {
	buf := make([]byte, 32)
	copy(buf[len(buf)+len(src):], src)
	return buf
}

// LINT-TAUTLEN
func lengthNeverNegative(s string) int {
	if len(s) >= 0 {
		return 1
	}
	return 0
}

// LINT-ARRFILL
func arrayFilledFromWrongCount(parts []string) ([4]byte, bool) {
	var out [4]byte
	if len(parts) != 5 {
		return out, false
	}
	for i, p := range parts {
		out[i] = p[0]
	}
	return out, true
}

// LINT-DEADVALUE: the statement that used the second encoding is gone.
func encodedAndDropped(v int, w io.Writer) error {
	out, err := asn1.Marshal(v)
	if err != nil {
		return err
	}
	w.Write(out)
	out, err = asn1.Marshal(v + 1)
	return err
}

// LINT-CONSTSLICE
func sliceBeyondUnknownLength(h []byte) []byte {
	return h[:8]
}

// LINT-CONSTSLICE to-array: a list of unknown length turned into an array.
func listIntoArray(h []byte) [4]byte {
	return [4]byte(h)
}

// LINT-OPTEMPTY: the defensive copy makes a list that is never nil, so the optional reference is always encoded.
type optRef struct {
	Org     string `asn1:"optional"`
	Numbers []int
}

type optNotice struct {
	Ref  optRef `asn1:"optional"`
	Text string `asn1:"optional,utf8"`
}

func optionalGetsEmptyList(numbers []int, text string) optNotice {
	cp := make([]int, len(numbers))
	copy(cp, numbers)
	return optNotice{Ref: optRef{Numbers: cp}, Text: text}
}

// DECODE-DIRECT: the document goes through a generic map first, numbers become float64.
type decodedDoc struct {
	Serial uint64 `json:"serial"`
}

func decodeThroughGenericMap(doc []byte) (decodedDoc, error) {
	var generic map[string]any
	var out decodedDoc
	if err := json.Unmarshal(doc, &generic); err != nil {
		return out, err
	}
	delete(generic, "$schema")
	again, err := json.Marshal(generic)
	if err != nil {
		return out, err
	}
	err = json.Unmarshal(again, &out)
	return out, err
}

// LINT-LOOPINV: the statement that shortened the list is gone; a leading zero makes the loop spin for ever.
type scalarHolder struct{ Bytes []byte }

func loopConditionNeverChanges(h *scalarHolder, width int) bool {
	for len(h.Bytes) > width {
		if h.Bytes[0] != 0 {
			return false
		}
	}
	return true
}

// LINT-NILSIG: the validator tells "no list" from "empty list"; the defensive copy merges them.
type nsProfile struct{ Attributes []string }

func nsAccepts(p *nsProfile, subject []string) bool {
	if p.Attributes != nil {
		return len(subject) <= len(p.Attributes)
	}
	return true
}

func copyLosesNilness(p *nsProfile) *nsProfile {
	out := *p
	out.Attributes = append([]string(nil), p.Attributes...)
	return &out
}

// LINT-BUFLOOP: the Reset at the top of the loop is gone.
func bufferNotResetInLoop(items [][]byte) [][]byte {
	one := new(bytes.Buffer)
	var out [][]byte
	for _, it := range items {
		one.Write([]byte{0x30, byte(len(it))})
		one.Write(it)
		out = append(out, append([]byte(nil), one.Bytes()...))
	}
	return out
}

// LINT-NILCHECKED: `||` became `&&`: a document without a version gets past the test.
type ncProxy struct{ Version *int }

func checkedThenUsedUnchecked(p ncProxy, err error) (int, error) {
	if err != nil && p.Version == nil {
		return 0, errors.New("no version")
	}
	return *p.Version + 1, nil
}

// LINT-FILLALL: the special case continues without having stored its element.
func elementSkippedWithoutStore(in []string) []string {
	out := make([]string, len(in))
	for i, s := range in {
		if strings.HasPrefix(s, "#") {
			continue
		}
		out[len(out)-i-1] = s
	}
	return out
}

// LINT-KNOWNEMPTY: the presence test of the optional URI is the wrong way round.
type keQualifier struct{ Cps string }

func storesWhatIsKnownEmpty(cps string, out *keQualifier) bool {
	if !(len(cps) > 0) {
		out.Cps = cps
		return true
	}
	return false
}

// LINT-LOOPVAR: every name ends up pointing at the profile read last (go 1.20 loop variable).
type lvProfile struct{ Name string }

func addressOfLoopVariableKept(profiles []lvProfile) map[string]*lvProfile {
	out := map[string]*lvProfile{}
	for _, p := range profiles {
		out[p.Name] = &p
	}
	return out
}

// LINT-MAPORDER: the remaining entries are appended in the order of the map.
func listBuiltInMapOrder(rest map[int]string) []string {
	var out []string
	for _, v := range rest {
		out = append(out, v)
	}
	return out
}

// LINT-PANICOPS
func divideByLength(total int, parts []string) int {
	return total / len(parts)
}

func makeOfDifference(width int, s string) []byte {
	return make([]byte, width-len(s))
}

func repeatOfDifference(width int, s string) string {
	return strings.Repeat(" ", width-len(s)) + s
}

type unmadeRegistry struct {
	byName map[string]int
}

func storeIntoUnmadeMap(r *unmadeRegistry, name string) {
	r.byName[name] = 1
}

// LINT-READ whole-stream: a longer document is cut off without a word.
func readsOnlyTheStart(r io.Reader) (string, error) {
	sb := new(strings.Builder)
	_, err := io.Copy(sb, io.LimitReader(r, 1024))
	return sb.String(), err
}

// ENC-PRESENCE: the all-zero address is a value, not absence.
type hostAddr interface{ octets() []byte }

type ip4 [4]byte

func (a ip4) octets() []byte { return a[:] }

type withOptionalAddr struct {
	Addr hostAddr
}

func addrGiven(a hostAddr) bool {
	return a != nil && !bytes.Equal(a.octets(), []byte{0, 0, 0, 0})
}

func presentButZero(w withOptionalAddr) []byte {
	if addrGiven(w.Addr) {
		return w.Addr.octets()
	}
	return nil
}

// LINT-READ scanner-error-looked-at: a line longer than the scanner's buffer ends the loop silently.
func scansWithoutAskingForTheError(r io.Reader) []string {
	var lines []string
	sc := bufio.NewScanner(r)
	for sc.Scan() {
		lines = append(lines, sc.Text())
	}
	return lines
}

// LINT-RUNEIDX: i counts bytes, chars counts characters.
func byteOffsetIntoRunes(s string) int {
	chars := []rune(s)
	n := 0
	for i, sym := range s {
		if i > 0 && sym == ',' && chars[i-1] != '\\' {
			n++
		}
	}
	return n
}

// LINT-NILSTORE: the registry is given what the helper answers, the helper answers nil for an empty text, and the
// reader uses what the getter hands back without a test.
type entry struct{ text string }

type registry struct{ entries map[string]*entry }

func parseEntry(s string) *entry {
	if s == "" {
		return nil
	}
	return &entry{text: s}
}

func (r *registry) put(k, s string) { r.entries[k] = parseEntry(s) }

func (r *registry) get(k string) *entry { return r.entries[k] }

func (r *registry) textOf(k string) string { return r.get(k).text }

func useRegistry(k, s string) string {
	r := &registry{entries: map[string]*entry{}}
	r.put(k, s)
	return r.textOf(k)
}

// LINT-CONTRADICT: the rejection sits behind a flag that says the names are equal and a test that they differ.
type fileMeta struct{ name string }

func neverRejects(known map[string]*fileMeta, alias, path string) bool {
	m, ok := known[alias]
	seen := ok && m.name == path
	if seen && m.name != path {
		return false
	}
	return true
}

// LINT-IDXCROSS: the index of the inner loop on the outer list.
type polIn struct{ quals []string }
type polOut struct{ quals []string }

func crossIndexed(in []polIn) []polOut {
	out := make([]polOut, len(in))
	for i, p := range in {
		out[i].quals = make([]string, len(p.quals))
		for j, q := range p.quals {
			out[j].quals[i] = q
		}
	}
	return out
}

// LINT-GUARDFIELD: the presence of one field decides about the use of its neighbour.
type authIn struct {
	Oid string `json:"oid"`
	Url string `json:"url"`
}

func testsOneUsesOther(a authIn) string {
	oid := ""
	if len(a.Url) > 0 {
		oid = strings.TrimSpace(a.Oid)
	}
	return oid
}

// LINT-MAPINIT: the list for a key is made afresh whenever ANOTHER map lacks the key.
type relations struct {
	known map[string]int
	below map[string][]string
}

func forgetsSiblings(r *relations, parent, child string) {
	if _, ok := r.known[parent]; !ok {
		r.below[parent] = make([]string, 0, 8)
	}
	r.below[parent] = append(r.below[parent], child)
}

// REGISTRY-KEEP: an empty entry in the place of one that holds the key.
type built struct {
	Key crypto.PrivateKey
	Der []byte
}

type store struct {
	cfgs  map[string]string
	built map[string]*built
}

func dropsWhatWasStored(s *store, alias, cfg string) {
	old, existed := s.cfgs[alias]
	s.cfgs[alias] = cfg
	if existed && old != cfg {
		s.built[alias] = &built{}
	}
}
