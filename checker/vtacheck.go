package main

import (
	"fmt"
	"os"
	"sort"
	"strings"

	"golang.org/x/tools/go/callgraph/cha"
	"golang.org/x/tools/go/callgraph/vta"
	"golang.org/x/tools/go/packages"
	"golang.org/x/tools/go/ssa"
	"golang.org/x/tools/go/ssa/ssautil"
)

// vtaCrossCheck builds whole-program SSA and a VTA call graph (seeded with CHA) and reports every
// edge between two module functions that the module call graph of callgraph.go lacks. VTA is not
// sound on this repository (values created through reflection), so it cannot replace the module
// graph; it is used only the other way round: whatever VTA finds, the module graph must have too.
// The result is evidence about the checker, never a verdict about the repository.
func vtaCrossCheck(repo string, c *Ctx) map[string]any {
	out := map[string]any{}
	cfg := &packages.Config{
		Mode: packages.LoadAllSyntax,
		Dir:  repo,
		Env:  append(os.Environ(), "GOWORK=off", "GOFLAGS=-mod=mod", "GOPROXY=off", "GOSUMDB=off"),
	}
	pkgs, err := packages.Load(cfg, "./...")
	if err != nil {
		out["error"] = err.Error()
		return out
	}
	prog, _ := ssautil.AllPackages(pkgs, ssa.InstantiateGenerics)
	prog.Build()
	all := ssautil.AllFunctions(prog)
	g := vta.CallGraph(all, cha.CallGraph(prog))
	mg := c.Graph()
	have := map[string]bool{}
	for from, es := range mg.Out {
		for _, e := range es {
			have[c.FuncKey(from)+" -> "+c.FuncKey(e.Callee)] = true
		}
	}
	isMod := func(f *ssa.Function) bool {
		for f.Parent() != nil {
			f = f.Parent()
		}
		return f.Pkg != nil && (f.Pkg.Pkg.Path() == modPath || strings.HasPrefix(f.Pkg.Pkg.Path(), modPath+"/"))
	}
	// function keys of the whole-program build must be computed the same way
	key := func(f *ssa.Function) string { return c.FuncKey(f) }
	total, missing := 0, []string{}
	for fn, node := range g.Nodes {
		if fn == nil || !isMod(fn) || fn.Synthetic != "" {
			continue
		}
		for _, e := range node.Out {
			callee := e.Callee.Func
			if callee == nil || !isMod(callee) || callee.Blocks == nil {
				continue
			}
			if callee.Synthetic != "" {
				continue // wrappers are resolved to their targets in the module graph
			}
			total++
			k := key(fn) + " -> " + key(callee)
			if !have[k] {
				missing = append(missing, k)
			}
		}
	}
	sort.Strings(missing)
	out["functions_whole_program"] = len(all)
	out["vta_module_edges"] = total
	out["module_graph_edges"] = len(have)
	out["vta_edges_missing_from_module_graph"] = missing
	out["note"] = fmt.Sprintf("VTA found %d module-to-module edges; %d are absent from the module call graph (must be 0)", total, len(missing))
	return out
}
