#!/bin/bash
# Builds the checker from files on disk only (golang.org/x/tools v0.29.0 from the module cache).
set -e
cd "$(dirname "$0")/checker"
export GOFLAGS=-mod=mod GOPROXY=off GOSUMDB=off GOTOOLCHAIN=local GOWORK=off
unset GOOS GOARCH
mkdir -p ../bin ../evidence
go build -o ../bin/gopkicheck .
echo "built $(cd .. && pwd)/bin/gopkicheck"
