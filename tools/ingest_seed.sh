#!/bin/bash
# usage: ingest_seed.sh <seed id>...   (after the sub-agent delivered into /tmp/seedout/<id>/)
# Copies the delivery into seeded/<id>/, confirms it (verify_seed.sh), runs the frozen checker binary ($FROZEN) against it,
# appends the first-run line to $FIRSTRUN, removes the agent's scratch worktree.
cd /verif
FROZEN=${FROZEN:-/tmp/gopkicheck_frozen_n}; FIRSTRUN=${FIRSTRUN:-refs/round_n_first_run.txt}
for id in "$@"; do
  src=/tmp/seedout/$id
  [ -f $src/patch.diff ] || { echo "$id: no patch.diff"; continue; }
  mkdir -p seeded/$id
  cp $src/patch.diff $src/notes.md seeded/$id/ 2>/dev/null
  if ls $src/demo*_test.go >/dev/null 2>&1; then cp $src/demo*_test.go seeded/$id/; fi
  res=$(tools/verify_seed.sh /verif/seeded/$id 2>&1 | tail -2)
  echo "$res"
  if echo "$res" | grep -q ' CONFIRMED'; then
    line=$(BIN=$FROZEN tools/run_seeds.sh $id | grep "^$id ")
    echo "$line" | tee -a $FIRSTRUN
  else
    echo "$id: NOT CONFIRMED - kept out"; 
  fi
  git -C /repo worktree remove --force /tmp/wt/$id 2>/dev/null; rm -rf /tmp/wt/$id
done
