#!/bin/bash
# Assembles DESIGN.md from the hand-written parts and the tables the checker itself uses.
cd "$(dirname "$0")/.."
P=tools/design_parts
{
  cat $P/01_intro.md $P/02_machinery.md $P/03_defects.md
  echo "## 4. Per-property design and 6. rule index"
  echo
  echo "Every claim is level \`other\`. *Decides* = clauses settled for all inputs by the rules listed; *Does not decide* = the rest of the statement. *Floor* = minimum number of obligations the rule must produce on the repository (confirmed by hand on today's tree; fewer means an anchor moved out of reach and the check fails as undecided)."
  echo
  ./bin/gopkicheck -doc
  echo
  cat $P/05_na_changes.md
  cat $P/08_seeded.md
  python3 tools/mkseedtable.py
  cat $P/08b_refactor.md
  [ -f $P/08c_round_d.md ] && cat $P/08c_round_d.md
  [ -f $P/08d_round3_sweep.md ] && cat $P/08d_round3_sweep.md
  [ -f $P/08e_round_e.md ] && cat $P/08e_round_e.md
  cat $P/09_why.md $P/10_appendix.md
} > DESIGN.md
wc -l DESIGN.md
