#!/usr/bin/env python3
"""Prints the prompt for one behaviour-preserving refactoring: mkrefprompt.py <id, e.g. R90> <file(s)> <style sentence>"""
import sys
rid, files, style = sys.argv[1:4]
t = open('/verif/tools/prompts/refactoring_prompt_example_R49.txt').read()
a = t.index('Your task: refactor the non-test code in ')
b = t.index(' Note: go.mod says go 1.20')
t = t[:a] + 'Your task: refactor the non-test code in %s for readability and maintainability WITHOUT changing behaviour in any way. Style for this commit: %s' % (files, style) + t[b:]
print(t.replace('R49', rid))
