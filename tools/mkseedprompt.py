#!/usr/bin/env python3
"""Prints the prompt given to the sub-agent that writes one seeded change: mkseedprompt.py <seed id, e.g. C09n> [focus sentence]
Only the property's text and the one-line summaries of earlier seeds of that property go in; nothing else from /verif."""
import json, sys
sid = sys.argv[1]; pid = sid[:3]
focus = sys.argv[2] if len(sys.argv) > 2 else ''
props = {json.loads(l)['id']: json.loads(l) for l in open('/verif/properties.jsonl')}
p = props[pid]
summ = json.load(open('/verif/seeded/summaries.json'))
used = [v for k, v in sorted(summ.items()) if k.startswith(pid)]
tmpl = open('/verif/tools/prompts/seed_prompt_example_C09i.txt').read()
head, rest = tmpl.split('  Property C09:', 1)
_, rest = rest.split('\n\nYour task:', 1)
task, tail = rest.split('Other engineers have already used these ideas', 1)
_, tail = tail.split('Name the demonstration test function', 1)
out = head + '  Property %s: %s\n  Statement: %s\n  Quantified over: %s\n\nYour task:' % (pid, p['title'], p['statement'], p['quantifier']['text']) + task
if used:
    out += 'Other engineers have already used these ideas for this property, so do NOT reuse them or close variations of them; look for a different mechanism, ideally in a different function or file, and ideally one where two code sites cooperate or where the effect only shows after a sequence of runs or edits:\n' + ''.join('  - %s\n' % u for u in used)
if focus:
    out += focus + '\n'
out += 'Name the demonstration test function' + tail
print(out.replace('C09i', sid))
