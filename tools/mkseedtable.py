#!/usr/bin/env python3
# Writes the table of independently seeded changes (DESIGN.md section 8.2) from seeded/*/meta.json and seeded/summaries.json.
import json, os
os.chdir('/verif')
summ = json.load(open('seeded/summaries.json'))
rows = []
for sid in sorted(d for d in os.listdir('seeded') if os.path.isdir('seeded/'+d)):
    m = json.load(open(f'seeded/{sid}/meta.json'))
    det = m.get('detection', {})
    fired = sorted({x.split(' ',1)[1].split('|')[0] for x in det.get('fired', []) if ' ' in x})
    rows.append((sid, summ.get(sid, '(see notes.md)'), ', '.join(fired) or '-', det.get('rule_history','?')))
print('| seed | what the change does | rules that fire now | history |')
print('|---|---|---|---|')
for r in rows:
    print('| %s | %s | %s | %s |' % r)
