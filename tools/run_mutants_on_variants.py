#!/usr/bin/env python3
"""Detection under refactoring: every stored mutant whose `find` text still occurs (once) in a stored refactoring's
version of the file is applied ON TOP of that refactoring, and the rules the mutant names must still report it.
A pair that is silent means a rule accepted the rewrite by going blind.
usage: REPO=<scratch copy of /repo with .git> [BIN=<checker binary>] tools/run_mutants_on_variants.py [variant ids...]
"""
import glob, json, os, subprocess, sys
REPO = os.environ.get('REPO')
if not REPO or REPO.rstrip('/') == '/repo':
    sys.exit('set REPO to a scratch copy of /repo')
os.chdir('/verif')
muts = []
for f in sorted(glob.glob('mutants/*.json')):
    if f.endswith('refactorings.json') or f.endswith('equivalents.json'):
        continue
    for e in json.load(open(f)):
        if e.get('kind') == 'mutant' and e.get('file') and e.get('find'):
            muts.append(e)
variants = [e for e in json.load(open('mutants/refactorings.json'))]
want = set(sys.argv[1:])
tot = det = other = 0
silent = []
def git(*a):
    subprocess.run(['git', '-C', REPO] + list(a), check=True, capture_output=True)
for v in variants:
    vid = v['id'].split('-')[1]
    if want and vid not in want:
        continue
    git('checkout', '--', '.'); git('clean', '-fdq')
    files = {}
    for w in v['whole']:
        src = open(w['with']).read()
        os.makedirs(os.path.dirname(os.path.join(REPO, w['file'])), exist_ok=True)
        open(os.path.join(REPO, w['file']), 'w').write(src)
        files[w['file']] = src
    for m in muts:
        src = files.get(m['file'])
        if src is None or src.count(m['find']) != 1:
            continue
        path = os.path.join(REPO, m['file'])
        open(path, 'w').write(src.replace(m['find'], m['replace']))
        out = subprocess.run([os.environ.get('BIN', './bin/gopkicheck'), '-prop', 'ALL', '-repo', REPO], capture_output=True, text=True).stdout
        open(path, 'w').write(src)
        fired = [l.split()[1] for l in out.splitlines() if l.startswith('VIOLATION ') or l.startswith('UNDECIDED ')]
        tot += 1
        rules = m.get('rules') or []
        hit = any(any(f.startswith(r + '|') for r in rules) for f in fired) if rules else bool(fired)
        if 'does not compile' in out or 'type-check' in out.lower() and not fired:
            tot -= 1
            continue
        real = [f for f in fired if not f.startswith('property=')]
        if real and all(f.startswith('ALL:') for f in real):
            tot -= 1  # the mutant does not type-check on top of this variant
            continue
        if hit:
            det += 1
        elif real:
            other += 1
            print(f'OTHER  {vid} + {m["id"]} (expects {",".join(rules)}) fired: {";".join(real[:3])}', flush=True)
        else:
            silent.append((vid, m['id']))
            print(f'SILENT {vid} + {m["id"]} (expects {",".join(rules)})', flush=True)
git('checkout', '--', '.'); git('clean', '-fdq')
print(f'pairs: {tot}, detected by the expected rule: {det}, by another rule only: {other}, silent: {len(silent)}')
