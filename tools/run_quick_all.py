#!/usr/bin/env python3
"""Runs the quick command of every claimed property in MANIFEST.json; prints one line each; exit 1 if any fails or prints VIOLATION."""
import json, subprocess, sys
m = json.load(open('/verif/MANIFEST.json'))
bad = 0
for c in m['checks']:
    p = subprocess.run(c['quick_cmd'], shell=True, cwd='/verif', capture_output=True, text=True)
    v = 'VIOLATION' in p.stdout
    last = (p.stdout.strip().splitlines() or [''])[-1][:110]
    print(c['property_id'], p.returncode, 'VIOLATION' if v else '', last)
    bad += p.returncode != 0 or v
print('failing checks:', bad)
sys.exit(1 if bad else 0)
