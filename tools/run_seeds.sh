#!/bin/bash
# Applies each seeded change to /repo, runs every rule, records which obligations fail, undoes the change.
# usage: run_seeds.sh [seed ids...]
cd /verif
[ -n "$(git -C /repo status --porcelain)" ] && { echo "/repo is not clean"; exit 2; }
SEEDS="${@:-$(cd seeded && ls -d */ | tr -d /)}"
for s in $SEEDS; do
  d=seeded/$s
  git -C /repo apply "$PWD/$d/patch.diff" || { echo "$s: patch does not apply"; continue; }
  out=$(${BIN:-./bin/gopkicheck} -prop ALL -verif ${VDIR:-/verif} 2>&1)
  git -C /repo checkout -- . 
  fired=$(echo "$out" | grep -E '^(VIOLATION|UNDECIDED) [A-Z]' | awk '{print $1" "$2}' | head -8 | tr '\n' ';')
  prop=${s:0:3}
  own=$(${BIN:-./bin/gopkicheck} -rules | grep "^$prop " | cut -d' ' -f2-)
  hit=no
  for r in $own; do echo "$fired" | grep -q " $r|" && hit=yes; done
  echo "$s own-property-check=$hit :: ${fired:-silent}"
done
[ -n "$(git -C /repo status --porcelain)" ] && echo "WARNING /repo left dirty"
