#!/bin/bash
# Applies pairs of stored refactorings that touch different files and runs every rule: interactions between rewrites.
# usage: [REPO=<copy of /repo with .git>] run_variant_pairs.sh [max pairs]   (default REPO=/repo; a copy leaves /repo free)
cd /verif
REPO=${REPO:-/repo}
[ -n "$(git -C $REPO status --porcelain)" ] && { echo "/repo is not clean"; exit 2; }
MAX=${1:-1000}
n=0
V=$(ls -d mutants/variants/R* | sort -V)
for a in $V; do for b in $V; do
  [ "$a" \< "$b" ] || continue
  fa=$(grep '^diff --git' $a/patch.diff | awk '{print $3}' | sort -u); fb=$(grep '^diff --git' $b/patch.diff | awk '{print $3}' | sort -u)
  [ -n "$(comm -12 <(echo "$fa") <(echo "$fb"))" ] && continue
  n=$((n+1)); [ $n -gt $MAX ] && break 2
  git -C $REPO apply "$PWD/$a/patch.diff" && git -C $REPO apply "$PWD/$b/patch.diff" || { git -C $REPO checkout -- .; echo "$(basename $a)+$(basename $b): does not apply"; continue; }
  out=$(${BIN:-./bin/gopkicheck} -prop ALL -repo $REPO 2>&1)
  git -C $REPO apply -R "$PWD/$b/patch.diff" 2>/dev/null; git -C $REPO apply -R "$PWD/$a/patch.diff" 2>/dev/null; git -C $REPO checkout -- .; git -C $REPO clean -fdq
  bad=$(echo "$out" | grep -E '^(VIOLATION|UNDECIDED) [A-Z]' | awk '{print $1" "$2}' | head -5 | tr '\n' ';')
  [ -n "$bad" ] && echo "$(basename $a)+$(basename $b): $bad"
done; done
echo "pairs run: $n"
[ -n "$(git -C $REPO status --porcelain)" ] && echo "WARNING /repo left dirty"
exit 0
