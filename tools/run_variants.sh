#!/bin/bash
# Applies each stored behaviour-preserving refactoring to /repo, runs every rule, undoes it. Every line must end in "hold".
cd /verif
[ -n "$(git -C /repo status --porcelain)" ] && { echo "/repo is not clean"; exit 2; }
for d in $(ls -d mutants/variants/R* | sort -V); do
  git -C /repo apply "$PWD/$d/patch.diff" || { echo "$d: patch does not apply"; continue; }
  out=$(${BIN:-./bin/gopkicheck} -prop ALL 2>&1)
  git -C /repo apply -R "$PWD/$d/patch.diff" 2>/dev/null || git -C /repo checkout -- .
  echo "$(basename $d): $(echo "$out" | grep -E '^(VIOLATION|UNDECIDED) [A-Z]' | awk '{print $1" "$2}' | tr '\n' ';') $(echo "$out" | grep 'ALL quick')"
done
[ -n "$(git -C /repo status --porcelain)" ] && echo "WARNING /repo left dirty"
exit 0
