#!/usr/bin/env python3
# Runs every rule against every seeded change (tools/run_seeds.sh) and records the outcome in seeded/<id>/meta.json.
import json, os, re, subprocess, sys
os.chdir('/verif')
# Was the rule that catches the change part of the rule set BEFORE the change (or its summary) was seen?
# 'design' = in the phase-1 design, 'built' = built before the change was seen, 'after' = added or extended in response.
history = {
 'C01a':'design','C02a':'design','C03a':'design','C04a':'design','C05a':'design','C06a':'after','C07a':'after','C08a':'after','C09a':'after',
 'C10a':'after','C11a':'design','C13a':'after','C14a':'design','C15a':'design','C16a':'after','C17a':'after','C18a':'design','C19a':'after','C20a':'design',
 'C01b':'built','C02b':'after','C03b':'built','C04b':'after','C05b':'built','C06b':'after','C07b':'after','C08b':'built','C09b':'after',
 'C10b':'after','C11b':'built','C13b':'built','C14b':'built','C15b':'built','C16b':'after','C17b':'after','C18b':'after','C19b':'built','C20b':'after',
 # round c: written while the rule set was frozen (tag rules-frozen-before-round-c); first run recorded in refs/round_c_first_run.txt.
 # 'frozen' = caught at the first run by a rule of its own property; 'frozen-other' = caught at the first run, but only by a rule
 # that was then attached to another property (or by an anchor that went undecided), the property's rule list / a semantic
 # obligation was added afterwards; 'after' = missed at the first run, obligation added afterwards.
 'C01c':'frozen-other','C02c':'after','C03c':'frozen','C04c':'frozen-other','C05c':'frozen-other','C06c':'after','C07c':'after','C08c':'after',
 'C09c':'after','C10c':'frozen-other','C11c':'after','C13c':'frozen-other','C14c':'after','C15c':'frozen-other','C16c':'after','C17c':'frozen-other',
 'C18c':'after','C19c':'frozen','C20c':'frozen',
 # round d: rules frozen at tag rules-frozen-before-round-d; first run in refs/round_d_first_run.txt
 'C01d':'after','C02d':'frozen-other','C03d':'after','C04d':'frozen','C05d':'frozen-other','C06d':'frozen','C07d':'frozen-other','C08d':'frozen',
 'C09d':'after','C10d':'frozen','C11d':'frozen-other','C13d':'after','C14d':'after','C15d':'frozen-other','C16d':'frozen-other','C17d':'frozen-other',
 'C18d':'frozen','C19d':'frozen-other','C20d':'frozen',
 # round e: rules frozen at tag rules-frozen-before-round-f; first run in refs/round_e_first_run.txt
 'C01e':'frozen-other','C02e':'frozen','C03e':'frozen','C04e':'frozen-other','C05e':'after','C06e':'frozen','C07e':'frozen-other','C08e':'frozen',
 'C09e':'frozen-other','C10e':'frozen','C11e':'frozen','C13e':'frozen','C14e':'after','C15e':'frozen','C16e':'frozen','C17e':'frozen-other',
 'C18e':'frozen','C19e':'frozen','C20e':'after',
 # round f: rules frozen at tag rules-frozen-before-round-g; first run in refs/round_f_first_run.txt
 'C01f':'frozen','C02f':'frozen-other','C03f':'frozen-other','C04f':'after','C05f':'frozen','C06f':'frozen-other','C07f':'after','C08f':'after',
 'C09f':'after','C10f':'after','C11f':'frozen-other','C13f':'after','C14f':'frozen','C15f':'frozen','C16f':'frozen','C17f':'frozen-other',
 'C18f':'after','C19f':'frozen-other','C20f':'after',
 # round g: rules frozen at tag rules-frozen-before-round-h; first run in refs/round_g_first_run.txt
 'C01g':'frozen','C02g':'frozen','C03g':'after','C04g':'frozen','C05g':'frozen','C06g':'frozen-other','C07g':'after','C08g':'frozen',
 'C09g':'after','C10g':'frozen-other','C11g':'after','C13g':'after','C14g':'after','C15g':'frozen','C16g':'frozen','C17g':'after',
 'C18g':'frozen','C19g':'frozen','C20g':'after',
 # round h: rules frozen at tag rules-frozen-before-round-i; first run in refs/round_h_first_run.txt
 'C01h':'frozen','C02h':'frozen-other','C03h':'frozen-other','C04h':'frozen','C05h':'frozen','C06h':'frozen','C07h':'frozen','C08h':'frozen',
 'C09h':'after','C10h':'frozen','C11h':'frozen-other','C13h':'frozen','C14h':'frozen-other','C15h':'after','C16h':'after','C17h':'frozen',
 'C18h':'frozen','C19h':'after','C20h':'after',
 # round i: rules frozen at tag rules-frozen-for-round-i; first run in refs/round_i_first_run.txt
 'C01i':'after','C02i':'frozen-other','C03i':'frozen-other','C04i':'after','C05i':'frozen','C06i':'after','C07i':'frozen','C08i':'frozen',
 'C09i':'after','C10i':'frozen','C11i':'frozen-other','C13i':'frozen-other','C14i':'frozen','C15i':'frozen','C16i':'frozen','C17i':'frozen',
 'C18i':'frozen-other','C19i':'after','C20i':'after',
 # round j: rules frozen at tag rules-frozen-for-round-j-seeds; first run in refs/round_j_first_run.txt
 'C01j':'frozen','C02j':'frozen','C03j':'after','C04j':'frozen','C05j':'frozen','C06j':'frozen','C07j':'frozen','C08j':'frozen',
 'C09j':'frozen-other','C10j':'after','C11j':'frozen','C13j':'after','C14j':'after','C15j':'frozen','C16j':'frozen','C17j':'after',
 'C18j':'frozen','C19j':'frozen-other','C20j':'after',
 # round k: rules frozen at tag rules-frozen-for-round-k-seeds; first run in refs/round_k_first_run.txt
 'C01k':'frozen','C02k':'frozen','C03k':'after','C04k':'frozen','C05k':'after','C06k':'frozen-other','C07k':'frozen','C08k':'frozen',
 'C09k':'after','C10k':'frozen','C11k':'frozen','C13k':'frozen','C14k':'frozen','C15k':'frozen-other','C16k':'after','C17k':'frozen',
 'C18k':'frozen','C19k':'frozen-other','C20k':'after',
 # round l: rules frozen at tag rules-frozen-for-round-l-seeds; first run in refs/round_l_first_run.txt
 'C01l':'frozen-other','C02l':'frozen','C03l':'after','C04l':'frozen-other','C05l':'frozen-other','C06l':'frozen','C07l':'frozen','C08l':'after',
 'C09l':'frozen','C10l':'frozen-other','C11l':'frozen-other','C13l':'frozen','C14l':'frozen','C15l':'frozen-other','C16l':'frozen-other','C17l':'frozen',
 'C18l':'after','C19l':'frozen','C20l':'frozen',
 # round m: rules frozen at tag rules-frozen-for-round-m-seeds; first run in refs/round_m_first_run.txt
 'C01m':'after','C02m':'frozen-other','C03m':'after','C04m':'frozen','C05m':'frozen','C06m':'after','C07m':'frozen','C08m':'frozen-other',
 'C09m':'frozen-other','C10m':'frozen-other','C11m':'after','C13m':'frozen','C14m':'frozen','C15m':'frozen','C16m':'frozen','C17m':'frozen',
 'C18m':'after','C19m':'frozen','C20m':'after',
 # round n: rules frozen at tag rules-frozen-for-round-n-seeds; first run in refs/round_n_first_run.txt (C12 claimed for the first time: four seeds)
 'C01n':'frozen','C02n':'frozen','C03n':'frozen','C04n':'frozen','C05n':'after','C06n':'frozen-other','C07n':'frozen','C08n':'frozen',
 'C09n':'after','C10n':'frozen','C11n':'frozen','C12a':'frozen','C12b':'frozen','C12c':'frozen','C12d':'frozen','C13n':'frozen','C14n':'after',
 'C15n':'frozen','C16n':'frozen','C17n':'frozen','C18n':'after','C19n':'frozen-other','C20n':'after',
 # round o: rules frozen at tag rules-frozen-for-round-o-seeds; first run in refs/round_o_first_run.txt (C05o, C08o, C12o: the own rule answered
 # undecided at the first run and names the construct now)
 'C01o':'frozen','C02o':'frozen','C03o':'frozen-other','C04o':'frozen','C05o':'frozen','C06o':'frozen','C07o':'frozen','C08o':'frozen',
 'C09o':'frozen','C10o':'frozen','C11o':'frozen','C12o':'frozen','C13o':'frozen','C14o':'frozen-other','C15o':'frozen','C16o':'frozen-other',
 'C17o':'frozen-other','C18o':'after','C19o':'frozen','C20o':'frozen',
 # round p (ten properties, short): rules frozen at tag rules-frozen-for-round-p-seeds; first run in refs/round_p_first_run.txt
 'C01p':'frozen-other','C03p':'frozen','C06p':'frozen','C09p':'after','C10p':'frozen','C13p':'frozen','C14p':'frozen','C16p':'frozen',
 'C18p':'frozen-other','C20p':'frozen',
}
seeds = sys.argv[1:] or sorted(d for d in os.listdir('seeded') if os.path.isdir('seeded/'+d))
out = subprocess.run(['tools/run_seeds.sh'] + seeds, capture_output=True, text=True).stdout
for line in out.splitlines():
    m = re.match(r'(\S+) own-property-check=(\w+) :: (.*)', line)
    if not m: print(line); continue
    sid, own, fired = m.groups()
    p = f'seeded/{sid}/meta.json'
    meta = json.load(open(p)) if os.path.exists(p) else {}
    head = subprocess.check_output(['git','-C','/repo','rev-parse','--short','HEAD']).decode().strip()
    meta.setdefault('seed_id', sid); meta.setdefault('property', sid[:3]); meta.setdefault('base_commit', head)
    meta.setdefault('origin', 'written by an independent sub-agent that was given only the property text and a scratch worktree of /repo (nothing from /verif)')
    meta.setdefault('what_it_breaks_and_needs', 'see notes.md (written by the sub-agent)')
    meta.setdefault('confirmed', 'tools/verify_seed.sh: in a fresh scratch worktree of /repo HEAD the demo passes on the clean tree; with patch.diff applied `go build ./...` succeeds, the full suite `go test -vet=off -count=1 ./...` passes, and the demo fails')
    meta['detection'] = {
        'command': 'git -C /repo apply seeded/%s/patch.diff; ./bin/gopkicheck -prop ALL; git -C /repo checkout -- .' % sid,
        'fired': [x for x in fired.split(';') if x and x != 'silent'],
        'caught': fired.strip() != 'silent',
        'caught_by_a_rule_of_its_own_property': own == 'yes',
        'rule_history': history.get(sid, meta.get('detection', {}).get('rule_history', 'frozen: rule set tagged before the change was written')),
    }
    json.dump(meta, open(p, 'w'), indent=1)
    print(sid, meta['detection']['caught'], own, meta['detection']['rule_history'])
