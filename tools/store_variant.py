#!/usr/bin/env python3
"""Store a behaviour-preserving refactoring as a whole-file variant.
usage: store_variant.py R41 <dir with patch.diff, notes.md> <worktree with the change applied> <slug>
Copies the changed files to mutants/variants/<R>/ and appends an entry to mutants/refactorings.json.
base = sha256 of the file in /repo the variant replaces ("" for a file the refactoring adds)."""
import hashlib, json, os, shutil, subprocess, sys
rid, src, wt, slug = sys.argv[1:5]
os.chdir('/verif')
files = subprocess.check_output(['git', '-C', wt, 'status', '--porcelain']).decode().splitlines()
vd = f'mutants/variants/{rid}'
os.makedirs(vd, exist_ok=True)
shutil.copy(os.path.join(src, 'patch.diff'), vd + '/patch.diff')
whole = []
for line in files:
    st, path = line[:2], line[3:].strip()
    if not path.endswith('.go') or path.endswith('_test.go'):
        continue
    if 'D' in st:
        raise SystemExit('deleted file not supported: ' + path)
    dst = vd + '/' + path.replace('/', '_') + '.txt'
    shutil.copy(os.path.join(wt, path), dst)
    base = ''
    if os.path.exists('/repo/' + path):
        base = hashlib.sha256(open('/repo/' + path, 'rb').read()).hexdigest()
    whole.append({'file': path, 'with': dst, 'base': base})
note = ''
np = os.path.join(src, 'notes.md')
if os.path.exists(np):
    note = ' '.join(open(np).read().split())[:220]
d = json.load(open('mutants/refactorings.json'))
d = [e for e in d if e['id'] != f'EQ-{rid}-{slug}']
d.append({'id': f'EQ-{rid}-{slug}', 'property': 'EQ', 'kind': 'equivalent', 'file': '', 'find': '', 'replace': '', 'rules': [], 'expect': '',
          'note': 'independently written behaviour-preserving refactoring of ' + ', '.join(w['file'] for w in whole) + ': ' + note, 'whole': whole})
json.dump(d, open('mutants/refactorings.json', 'w'), indent=1)
print(rid, [w['file'] for w in whole])
