#!/bin/bash
# usage: sweep_parallel.sh <ops: typed|all|""> <repo dir> <out dir>
# Runs the mutation sweep (exploration aid, not a check) as one process per source file group.
OPS="$1"; REPO="${2:-/repo}"; OUT="${3:-/tmp/sweep_out}"
cd "$(dirname "$0")/.." && ./setup.sh >/dev/null || exit 2
mkdir -p "$OUT"
for part in cert/cert.go cert/extensions.go config/config.go config/v1/config-v1.go config/v1/extensions.go config/v1/schema.go db/db.go filesystem.go cli/root.go generator/generator.go logging.go main.go; do
  n=$(echo $part | tr '/' '_')
  GOPKICHECK_SWEEP_OPS=$OPS ./bin/gopkicheck -sweep -sweep-file "$part" -repo "$REPO" -verif "$PWD" > "$OUT/$n.txt" 2>&1 &
done
wait
cat "$OUT"/*.txt | grep -E '^(survived|reported|does-not-compile)' | awk '{print $1}' | sort | uniq -c
