#!/usr/bin/env python3
"""Runs the repository's own test suite against the surviving mutants of a sweep (exploration aid, not a check).
usage: sweep_tests.py <dump dir made with GOPKICHECK_SWEEP_DUMP> <dir with the sweep's per-file outputs> <out file> [jobs]
A surviving mutant that also passes the suite is a change nobody would notice: those are the blind spots worth reading."""
import os, re, sys, subprocess, shutil, glob, collections
from concurrent.futures import ThreadPoolExecutor
dump, outs, outfile = sys.argv[1:4]
jobs = int(sys.argv[4]) if len(sys.argv) > 4 else 6
REPO = os.environ.get('REPO', '/repo')
# mutants of the dump, per file in order
per_file = collections.defaultdict(list)
for t in sorted(glob.glob(dump + '/*.txt')):
    line = open(t).read().strip()
    f = line.split(':', 1)[0]
    per_file[f].append((t[:-4] + '.go', line))
surv = []
for o in sorted(glob.glob(outs + '/*.txt')):
    seen = collections.Counter()
    for l in open(o):
        m = re.match(r'(survived|reported|does-not-compile)\s+(\S+?):(\d+)\s', l)
        if not m: continue
        f = m.group(2)
        k = seen[f]; seen[f] += 1
        if m.group(1) == 'survived':
            src, desc = per_file[f][k]
            assert desc.split()[0] == '%s:%s' % (f, m.group(3)), (desc, l)
            surv.append((f, src, desc))
skip = re.compile(r'logging\.|fmt\.Errorf|fmt\.Print|errors\.New')
def interesting(f, src, desc):
    ln = int(desc.split()[0].split(':')[1])
    if f.startswith('logging/'): return False
    orig = open(os.path.join(REPO, f)).read().split('\n')
    return not skip.search(orig[ln - 1])
todo = [s for s in surv if interesting(*s)]
print(len(surv), 'survivors,', len(todo), 'outside log/error texts', flush=True)
env = dict(os.environ, GOFLAGS='-mod=mod', GOPROXY='off', GOSUMDB='off', GOTOOLCHAIN='local')
def run(i_s):
    i, (f, src, desc) = i_s
    d = '/tmp/mt/%d' % i
    shutil.rmtree(d, ignore_errors=True)
    subprocess.run(['rsync', '-a', '--exclude', '.git', REPO + '/', d + '/'], check=True)
    shutil.copy(src, os.path.join(d, f))
    try:
        p = subprocess.run(['go', 'test', '-vet=off', '-count=1', './...'], cwd=d, env=env, capture_output=True, text=True, timeout=300)
        res = 'PASS' if p.returncode == 0 else 'killed'
    except subprocess.TimeoutExpired:
        res = 'timeout'
    shutil.rmtree(d, ignore_errors=True)
    return res, desc
with ThreadPoolExecutor(jobs) as ex, open(outfile, 'w') as out:
    for res, desc in ex.map(run, enumerate(todo)):
        out.write('%-8s %s\n' % (res, desc)); out.flush()
print(open(outfile).read().count('PASS'), 'pass the suite')
