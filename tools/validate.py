#!/usr/bin/env python3
# validates MANIFEST.json and every evidence file against the given schemas (python3-vt has jsonschema)
import json, sys, glob, jsonschema
m = json.load(open('/verif/MANIFEST.json'))
jsonschema.validate(m, json.load(open('/root/.vp/MANIFEST.schema.json')))
ids = [c['property_id'] for c in m['checks']]
na = [n['property_id'] for n in m.get('not_applicable', [])]
props = [json.loads(l)['id'] for l in open('/verif/properties.jsonl')]
assert sorted(ids + na) == sorted(props), (ids, na)
es = json.load(open('/root/.vp/EVIDENCE.schema.json'))
for c in m['checks']:
    try:
        e = json.load(open(c['evidence_file']))
        jsonschema.validate(e, es)
        print(c['property_id'], 'evidence ok:', e['tier'], 'obligations', e['coverage']['obligations'], 'distinct', e['coverage']['distinct_nontrivial'], 'violations', e.get('violations'))
    except Exception as ex:
        print(c['property_id'], 'EVIDENCE PROBLEM', str(ex)[:200])
print('manifest ok; claimed', ids, 'not applicable', na)
