#!/bin/bash
# usage: verify_seed.sh <seed dir with patch.diff + demo_test.go> [scratch worktree dir]
# Confirms in a scratch worktree of /repo HEAD: patch applies, builds, full suite passes with it,
# demo fails with it, demo passes without it. Prints one summary line; removes the worktree.
export GOFLAGS=-mod=mod GOPROXY=off GOSUMDB=off GOTOOLCHAIN=local
S="$1"; NAME=$(basename "$S"); WT="${2:-/tmp/vseed_$NAME}"
git -C /repo worktree remove --force "$WT" >/dev/null 2>&1; rm -rf "$WT"
git -C /repo worktree add -q --detach "$WT" HEAD || { echo "$NAME: worktree failed"; exit 2; }
cleanup(){ git -C /repo worktree remove --force "$WT" >/dev/null 2>&1; rm -rf "$WT"; }
trap cleanup EXIT
cd "$WT"
DEMO=$(ls "$S"/demo*_test.go 2>/dev/null | head -1)
[ -z "$DEMO" ] && { echo "$NAME: no demo_test.go"; exit 2; }
DIR=$(grep -o -i -E 'copy (it )?(in)?to[: ]+`?[a-z0-9_/.-]+' "$DEMO" | head -1 | sed -E 's/.*to[: ]+`?//; s#/$##')
[ -z "$DIR" ] && DIR=$(grep -m1 -o -E '(generator|cli)[a-z0-9_/]*' "$DEMO" | head -1 | sed 's#/$##')
[ -d "$WT/$DIR" ] || { echo "$NAME: demo dir '$DIR' not found"; exit 2; }
PKGNAME=$(grep -m1 '^package ' "$DEMO" | awk '{print $2}')
run_demo(){ cp "$DEMO" "$WT/$DIR/zz_demo_test.go"; (cd "$WT/$DIR" && go test -vet=off -count=1 -run "${DEMO_RUN:-Demo}" . >/tmp/vseed_$NAME.$1.log 2>&1); rc=$?; rm -f "$WT/$DIR/zz_demo_test.go"; return $rc; }
run_demo clean; CLEAN=$?
git apply "$S/patch.diff" || { echo "$NAME: patch does not apply"; exit 2; }
go build ./... >/tmp/vseed_$NAME.build.log 2>&1; BUILD=$?
go test -vet=off -count=1 ./... >/tmp/vseed_$NAME.suite.log 2>&1; SUITE=$?
run_demo patched; PATCHED=$?
RAN=$(grep -c -E '^(--- |ok|FAIL|PASS)' /tmp/vseed_$NAME.patched.log)
echo "$NAME: dir=$DIR pkg=$PKGNAME demo_clean_rc=$CLEAN build_rc=$BUILD suite_rc=$SUITE demo_patched_rc=$PATCHED"
if [ $CLEAN -eq 0 ] && [ $BUILD -eq 0 ] && [ $SUITE -eq 0 ] && [ $PATCHED -ne 0 ]; then echo "$NAME: CONFIRMED"; else echo "$NAME: NOT CONFIRMED"; fi
